"""Case generators shared by checks/C11.py and checks/C12.py (AML parser).

  lexer cases   : 0 fn pkgEnd offset arg bytes...
  parse cases   : 1 ntables (len bytes...)*          payloads (the harness / model add the 36-byte header)
"""
import os, sys
sys.path.insert(0, os.path.join(os.path.dirname(os.path.abspath(__file__)), '..', 'lib'))
import vlib

HDR = 36
NAMECH = b'ABCDEFGHIJKLMNOPQRSTUVWXYZ_'
NAMECH2 = b'ABCDEFGHIJKLMNOPQRSTUVWXYZ_0123456789'


def join_tables(tabs):
    out = [1, len(tabs)]
    for t in tabs:
        out.append(len(t))
        out += list(t)
    return out


def split_tables(nums):
    n = nums[1] if len(nums) > 1 else 0
    i = 2
    tabs = []
    for _ in range(n):
        if i >= len(nums):
            break
        ln = nums[i]
        tabs.append(list(nums[i + 1:i + 1 + ln]))
        i += 1 + ln
    return tabs


# ---------------------------------------------------------------------------------------------
# tokens
# ---------------------------------------------------------------------------------------------

def enc_pkglen_width(v, k):
    """PkgLength value v in k bytes (k=1: v<64; k>=2: 4 low bits in the lead byte)."""
    if k == 1:
        assert v < 64
        return [v]
    out = [((k - 1) << 6) | (v & 0xf)]
    v >>= 4
    for _ in range(k - 1):
        out.append(v & 0xff)
        v >>= 8
    assert v == 0
    return out


def pkglen_max(k):
    return 63 if k == 1 else (1 << (4 + 8 * (k - 1))) - 1


def rand_nameseg(rng):
    return [rng.choice(NAMECH)] + [rng.choice(NAMECH2) for _ in range(3)]


def rand_bytes(rng, n):
    return [rng.randrange(256) for _ in range(n)]


INTERESTING = [0x00, 0x01, 0x08, 0x0a, 0x0b, 0x0c, 0x0d, 0x0e, 0x10, 0x11, 0x12, 0x13, 0x14, 0x2e, 0x2f, 0x5b, 0x5c, 0x5e,
               0x41, 0x5f, 0x60, 0x68, 0x70, 0x72, 0x80, 0x81, 0x82, 0x83, 0x86, 0x87, 0xa0, 0xa1, 0xa2, 0xa3, 0xa4, 0xff, 0x3f, 0x40, 0x7f, 0xc0]


def lex_case(rng):
    fn = rng.choice([0, 0, 0, 1, 1, 2, 2, 3, 3, 3, 3, 4, 4, 5, 6, 7, 8, 9])
    pre = rand_bytes(rng, rng.choice([0, 0, 1, 3, 36]))
    arg = 0
    tok = []
    if fn == 0:
        k = rng.randrange(1, 5)
        v = rng.choice([0, 1, 15, 16, 63, 64, 255, 256, 4095, 4096, (1 << 20) - 1, 1 << 20, (1 << 28) - 1, rng.randrange(1 << 28)])
        v = min(v, pkglen_max(k))
        tok = enc_pkglen_width(v, k)
        if rng.random() < 0.3:
            tok[0] |= rng.randrange(4) << 4        # the reserved bits 4-5 of a multi-byte lead
            tok[0] &= 0xff
        note = 'lex-pkglen'
    elif fn == 1:
        arg = rng.choice([0, 1, 2, 4, 8, 8, 3, 15, rng.randrange(16)])
        tok = rand_bytes(rng, rng.choice([arg, arg, max(arg - 1, 0), arg + 1, 0]))
        note = 'lex-num'
    elif fn == 2:
        n = rng.choice([0, 1, 5, 40, 200])
        tok = [rng.randrange(1, 0x80) for _ in range(n)]
        r = rng.random()
        if r < 0.6:
            tok.append(0)
        elif r < 0.8:
            tok.append(rng.choice([0x80, 0xff, 0x81]))
        note = 'lex-string'
    elif fn == 3:
        tok = [rng.choice([0x5c, 0x5e]) for _ in range(rng.choice([0, 0, 1, 1, 2, 5]))]
        form = rng.randrange(6)
        if form == 0:
            tok += [0]
        elif form == 1:
            tok += rand_nameseg(rng)
        elif form == 2:
            tok += [0x2e] + rand_nameseg(rng) + rand_nameseg(rng)
        elif form == 3:
            sc = rng.choice([0, 1, 2, 3, 7, 63, 64, 65, 128, 255])
            tok += [0x2f, sc]
            for _ in range(min(sc, rng.choice([sc, sc, 3]))):
                tok += rand_nameseg(rng)
        elif form == 4:
            tok += [rng.choice([0x30, 0x39, 0x40, 0x5b, 0x60, 0x61, 0x7a, 0xff, 0x2d])] + rand_bytes(rng, 3)
        else:
            tok += rand_bytes(rng, rng.randrange(0, 6))
        note = 'lex-name'
    elif fn in (4, 5):
        r = rng.random()
        if r < 0.5:
            tok = [rng.randrange(256)]
        elif r < 0.9:
            tok = [0x5b, rng.randrange(256)]
        else:
            tok = [0x5b]
        note = 'lex-opcode'
    else:
        tok = rand_bytes(rng, rng.randrange(0, 3))
        note = 'lex-reader'
    post = rand_bytes(rng, rng.choice([0, 0, 1, 4, 9]))
    data = pre + tok + post
    off = len(pre)
    end = len(pre) + len(tok)
    r = rng.random()
    if r < 0.45:
        pkg_end = len(data)
    elif r < 0.6:
        pkg_end = end
    elif r < 0.85:
        pkg_end = rng.randrange(off, end + 1) if end > off else off      # inside the token
    elif r < 0.92:
        pkg_end = rng.randrange(0, len(data) + 1)
    elif r < 0.96:
        pkg_end = len(data) + rng.choice([1, 2, 1000])                   # SetPkgEnd must refuse
    else:
        pkg_end = max(off - 1, 0)
    if rng.random() < 0.07:
        off = rng.choice([0, len(data), len(data) + 1, rng.randrange(0, len(data) + 2), 0xffffffff])
    return ([0, fn, pkg_end, off, arg] + data, note)


# ---------------------------------------------------------------------------------------------
# parse cases
# ---------------------------------------------------------------------------------------------

_REAL = None


def real_tables():
    """payloads of the AML tables shipped in the repository's test data"""
    global _REAL
    if _REAL is None:
        d = os.path.join(vlib.REPO, 'kernel/device/acpi/table/tabletest')
        _REAL = {}
        for fn in ('DSDT.aml', 'SSDT.aml', 'parser-testsuite-DSDT.aml'):
            try:
                b = open(os.path.join(d, fn), 'rb').read()
                _REAL[fn] = list(b[HDR:])
            except OSError:
                pass
    return _REAL


def _pkg(op, body, k=None):
    """op bytes + PkgLength (covering itself and body) + body, in the smallest (or given) width"""
    for w in ([k] if k else [1, 2, 3, 4]):
        if len(body) + w <= pkglen_max(w):
            return list(op) + enc_pkglen_width(len(body) + w, w) + list(body)
    raise ValueError('package too long')


def _nm(s):
    return [ord(c) for c in s]


# hand-written seeds: small well-formed fragments covering every argument kind
SEEDS = [
    # Name(AAAA, 0x12)
    [0x08] + _nm('AAAA') + [0x0a, 0x12],
    # Scope(\_SB_) { Device(DEV0) { Name(_ADR, One) } }
    _pkg([0x10], [0x5c] + _nm('_SB_') + _pkg([0x5b, 0x82], _nm('DEV0') + [0x08] + _nm('_ADR') + [0x01])),
    # Method(MTH0, 2) { Return(Add(Arg0, Arg1)) }   Name(XXXX, MTH0(1,2))
    _pkg([0x14], _nm('MTH0') + [0x02, 0xa4, 0x72, 0x68, 0x69, 0x00]) + [0x08] + _nm('XXXX') + _nm('MTH0') + [0x01, 0x0a, 0x02],
    # forward call: Name(YYYY, MTH1(One))  Method(MTH1, 1) { Return(Arg0) }
    [0x08] + _nm('YYYY') + _nm('MTH1') + [0x01] + _pkg([0x14], _nm('MTH1') + [0x01, 0xa4, 0x68]),
    # OpRegion + Field
    [0x5b, 0x80] + _nm('REG0') + [0x01, 0x0b, 0x00, 0x30, 0x0a, 0x04] +
    _pkg([0x5b, 0x81], _nm('REG0') + [0x01] + _nm('FLD0') + [0x08, 0x00, 0x08] + _nm('FLD1') + [0x08]),
    # Field with Connection(buffer), AccessField, ExtAccessField
    _pkg([0x5b, 0x81], _nm('AAAA') + [0x00, 0x02] + _pkg([0x11], [0x0a, 0x03, 0x01, 0x02, 0x03]) + _nm('FLD0') + [0x08, 0x01, 0x05, 0x06] +
         _nm('FLD1') + [0x08, 0x03, 0x05, 0x0b, 0x04] + _nm('FLD2') + [0x10]),
    # Name(BUF0, Buffer(4){1,2,3})  Method(MTH1){ While(One){ Store(1, Local0) Break }  If(Zero){} Else{Noop} }
    [0x08] + _nm('BUF0') + _pkg([0x11], [0x0a, 0x04, 0x01, 0x02, 0x03]) +
    _pkg([0x14], _nm('MTH1') + [0x00] + _pkg([0xa2], [0x01, 0x70, 0x01, 0x60, 0xa5]) + _pkg([0xa0], [0x00]) + _pkg([0xa1], [0xa3])),
    # relocation: Scope(_SB_){ Device(DEV0){} Scope(DEV0){ Device(^DEV1){ Name(AAAA, Zero) } } }
    _pkg([0x10], _nm('_SB_') + _pkg([0x5b, 0x82], _nm('DEV0')) +
         _pkg([0x10], _nm('DEV0') + _pkg([0x5b, 0x82], [0x5e] + _nm('DEV1') + [0x08] + _nm('AAAA') + [0x00]))),
    # Mutex, Event, Processor, PowerRes, ThermalZone, Package, String
    [0x5b, 0x01] + _nm('MUT0') + [0x01, 0x5b, 0x02] + _nm('EVT0') +
    _pkg([0x5b, 0x83], _nm('CPU0') + [0x01, 0x20, 0x01, 0x00, 0x00, 0x06]) +
    _pkg([0x5b, 0x84], _nm('PWR0') + [0x00, 0x00, 0x00]) + _pkg([0x5b, 0x85], _nm('TZ0_')) +
    [0x08] + _nm('PKG0') + _pkg([0x12], [0x02, 0x0a, 0x07, 0x0d, 0x61, 0x62, 0x00]),
    # multi-segment names: Device(\_SB_.DEV2){}  Name(\_SB_.DEV2.NNNN, 0x1234)  Scope(\_SB_.DEV2) {Name(MMMM, One)}
    _pkg([0x5b, 0x82], [0x5c, 0x2e] + _nm('_SB_') + _nm('DEV2')) + [0x08, 0x5c, 0x2f, 0x03] + _nm('_SB_') + _nm('DEV2') + _nm('NNNN') + [0x0b, 0x34, 0x12],
    # the self-relocation crasher and the byte-list crasher (fixed in /repo)
    [0x5b, 0x82, 0x0a, 0x2e, 0x41, 0x41, 0x41, 0x41, 0x41, 0x41, 0x41, 0x41],
    [0x5b, 0x81, 0x0f, 0x41, 0x41, 0x41, 0x41, 0x00, 0x02, 0x11, 0x07, 0x0c, 0xff, 0xff, 0xff, 0x7f, 0x00],
]

VALID_OPS = [0x00, 0x01, 0x06, 0x08, 0x0a, 0x0b, 0x0c, 0x0d, 0x0e, 0x10, 0x11, 0x12, 0x13, 0x14, 0x15] + list(range(0x60, 0x6f)) + \
    list(range(0x70, 0x9a)) + list(range(0x9c, 0xa6)) + [0xcc, 0xff]
EXT_OPS = [0x01, 0x02, 0x12, 0x13, 0x1f] + list(range(0x20, 0x2b)) + [0x30, 0x31, 0x32, 0x33] + list(range(0x80, 0x89))


def soup(rng, n):
    """syntactically plausible token soup: opcodes, package lengths, names, constants in random order"""
    out = []
    while len(out) < n:
        r = rng.random()
        if r < 0.35:
            out.append(rng.choice(VALID_OPS))
        elif r < 0.5:
            out += [0x5b, rng.choice(EXT_OPS)]
        elif r < 0.65:
            k = rng.choice([1, 1, 1, 2, 3, 4])
            v = rng.choice([0, 1, 2, 5, 8, 12, 20, 40, 63, rng.randrange(0, 400)])
            out += enc_pkglen_width(min(v, pkglen_max(k)), k)
        elif r < 0.85:
            form = rng.randrange(5)
            out += [rng.choice([0x5c, 0x5e]) for _ in range(rng.choice([0, 0, 0, 1, 2]))]
            seg = lambda: rng.choice([[0x41, 0x41, 0x41, 0x41], [0x42, 0x42, 0x42, 0x42], [0x5f, 0x53, 0x42, 0x5f], rand_nameseg(rng)])
            if form == 0:
                out += seg()
            elif form == 1:
                out += [0x2e] + seg() + seg()
            elif form == 2:
                k = rng.choice([1, 2, 3])
                out += [0x2f, k]
                for _ in range(k):
                    out += seg()
            elif form == 3:
                out += [0]
            else:
                out += seg()
        elif r < 0.93:
            out += rng.choice([[0x0a, rng.randrange(256)], [0x0b] + rand_bytes(rng, 2), [0x0c] + rand_bytes(rng, 4), [0x0d, 0x61, 0x62, 0]])
        else:
            out.append(rng.randrange(256))
    return out[:n] if rng.random() < 0.5 else out


def pkglen_positions(t):
    """heuristic: positions right after an opcode that takes a PkgLength"""
    pos = []
    for i, b in enumerate(t[:-1]):
        if b in (0x10, 0x11, 0x12, 0x13, 0x14, 0xa0, 0xa1, 0xa2):
            pos.append(i + 1)
        if b == 0x5b and t[i + 1] in (0x81, 0x82, 0x83, 0x84, 0x85, 0x86, 0x87) and i + 2 < len(t):
            pos.append(i + 2)
    return pos


def mutate(rng, t, pool):
    """one mutation of payload t (list of bytes): truncation, bit flip, substitution, length corruption, splice, insert, delete"""
    t = list(t)
    if not t:
        return rand_bytes(rng, rng.randrange(1, 8)), 'rand'
    r = rng.random()
    if r < 0.15:
        return t[:rng.randrange(0, len(t))], 'trunc'
    if r < 0.3:
        for _ in range(rng.choice([1, 1, 2, 4])):
            i = rng.randrange(len(t))
            t[i] ^= 1 << rng.randrange(8)
        return t, 'bitflip'
    if r < 0.5:
        for _ in range(rng.choice([1, 1, 2, 3])):
            i = rng.randrange(len(t))
            t[i] = rng.choice(INTERESTING) if rng.random() < 0.7 else rng.randrange(256)
        return t, 'subst'
    if r < 0.72:
        pos = pkglen_positions(t)
        if pos:
            i = rng.choice(pos)
            lead = t[i]
            k = (lead >> 6) + 1
            mode = rng.randrange(6)
            if mode == 0:
                t[i] = rng.choice([0, 1, 2, 3, 0x3f])                       # tiny / zero / maximal one-byte length
            elif mode == 1:
                t[i] = (lead + rng.choice([1, 2, -1, -2, 4, 16])) & 0xff     # off by a little
            elif mode == 2:
                t[i:i + 1] = enc_pkglen_width(rng.choice([0x0fffffff, 0x0ffffff0, len(t), len(t) + 1, len(t) * 2]), 4)
            elif mode == 3:
                t[i] = (lead & 0x3f) | (rng.randrange(4) << 6)               # change the width, keep the bits
            elif mode == 4 and k > 1 and i + 1 < len(t):
                t[i + 1] = rng.randrange(256)
            else:
                k2 = rng.choice([2, 3, 4])
                t[i:i + k] = enc_pkglen_width(min(rng.randrange(0, 2 * len(t) + 2), pkglen_max(k2)), k2)
            return t, 'lencorrupt'
        return t[:rng.randrange(0, len(t))], 'trunc'
    if r < 0.86:
        o = rng.choice(pool)
        if o:
            a = rng.randrange(len(t) + 1)
            b0 = rng.randrange(len(o))
            b1 = min(len(o), b0 + rng.choice([1, 4, 12, 40, 200]))
            if rng.random() < 0.5:
                t[a:a] = o[b0:b1]
            else:
                t[a:a + (b1 - b0)] = o[b0:b1]
        return t, 'splice'
    if r < 0.93:
        a = rng.randrange(len(t))
        del t[a:a + rng.choice([1, 1, 2, 4, 9])]
        return t, 'delete'
    a = rng.randrange(len(t) + 1)
    t[a:a] = [rng.choice(INTERESTING) for _ in range(rng.choice([1, 1, 2, 4]))]
    return t, 'insert'


# ---- field lists with boundary package lengths -------------------------------------------------------------
def _plen(v, k):
    """PkgLength v in k bytes, clamped to what k bytes can hold"""
    return enc_pkglen_width(max(0, min(v, pkglen_max(k))), k)


def _boundary(rng, exact):
    """a package length at or next to the exact one, zero, one, or far too long"""
    return rng.choice([0, 1, exact - 1, exact, exact, exact + 1, exact + 2, exact + rng.choice([7, 40, 300]), rng.randrange(0, exact + 4)])


FE_KINDS = ['named', 'reserved', 'access', 'extaccess', 'connname', 'connbuf']


def field_element(rng, kind, mode=None, size_enc=None, k=None):
    """one field element; connbuf: mode in zero/one/short/exact/over/random, size_enc in 0 (no size operand) / 1 / 2 / 4"""
    k = k or rng.choice([1, 1, 1, 2, 3, 4])
    if kind == 'named':
        return rand_nameseg(rng) + _plen(rng.choice([0, 1, 8, 16, 63, 64, 0xfff, rng.randrange(0, 70000)]), k)
    if kind == 'reserved':
        return [0x00] + _plen(rng.choice([0, 1, 8, 63, 64, 0x1000, rng.randrange(0, 70000)]), k)
    if kind == 'access':
        return [0x01, rng.choice([0, 1, 2, 3, 4, 5, rng.randrange(256)]), rng.choice([0, 2, 4, 6, 8, 0xa, 0xb, 0xc, 0xd, 0xe, 0xf, rng.randrange(256)])]
    if kind == 'extaccess':
        return [0x03, rng.choice([0, 1, 5, rng.randrange(256)]), rng.choice([0xb, 0xe, 0xf, rng.randrange(256)]), rng.randrange(256)]
    if kind == 'connname':
        return [0x02] + rng.choice([rand_nameseg(rng), [0x5c] + rand_nameseg(rng), [0x2e] + rand_nameseg(rng) + rand_nameseg(rng), [0x00], [0x5e, 0x5e] + rand_nameseg(rng)])
    # Connection(Buffer): 02 11 PkgLength [size operand] data
    mode = mode or rng.choice(['zero', 'one', 'short', 'exact', 'exact', 'over', 'random'])
    size_enc = rng.choice([0, 1, 1, 2, 4]) if size_enc is None else size_enc
    data = rand_bytes(rng, rng.choice([0, 1, 2, 3, 8, 20]))
    if mode == 'zero' and rng.random() < 0.7:
        # nothing inside: what follows is read again as field elements (a byte below 0x40 makes "00 xx" a reserved field)
        return [0x02, 0x11] + _plen(0, k) + [rng.choice([0x00, 0x01, 0x08, 0x10, 0x3f, rng.randrange(0x40)])]
    declared = rng.choice([len(data), len(data), len(data) + 1, max(len(data) - 1, 0), 0, 0xff, 0xffff, 0x7fffffff, 0xffffffff])
    size = {0: [], 1: [0x0a, declared & 0xff], 2: [0x0b] + [declared & 0xff, (declared >> 8) & 0xff],
            4: [0x0c] + [(declared >> (8 * i)) & 0xff for i in range(4)]}[size_enc]
    body = size + data
    exact = len(body) + k
    v = {'zero': 0, 'one': 1, 'short': exact - rng.choice([1, 2, 3]), 'exact': exact, 'over': exact + rng.choice([1, 2, 7, 40, 1000]),
         'random': rng.randrange(0, exact + 6)}[mode]
    return [0x02, 0x11] + _plen(v, k) + body


def field_container(rng, which, elems, outer=None):
    """Field / IndexField / BankField around the given field elements; outer = None (exact) or a delta on the package length"""
    flags = rng.choice([0x00, 0x01, 0x05, 0x11, 0x35, 0x7f, rng.randrange(256)])
    body = []
    if which == 'field':
        op = [0x5b, 0x81]
        body += _nm('REG0')
    elif which == 'index':
        op = [0x5b, 0x86]
        body += _nm('IDX0') + _nm('DAT0')
    else:
        op = [0x5b, 0x87]
        body += _nm('REG0') + _nm('BNK0') + rng.choice([[0x00], [0x01], [0x0a, rng.randrange(256)], [0x0b, 1, 2], _nm('AAAA')])
    body += [flags]
    for e in elems:
        body += e
    k = rng.choice([1, 1, 2, 2, 3, 4])
    if len(body) + k > pkglen_max(k):
        k = 2
    exact = len(body) + k
    v = exact if outer is None else max(0, exact + outer)
    return op + _plen(v, k) + body


FIELD_PRELUDE = ([0x5b, 0x80] + _nm('REG0') + [0x01, 0x0b, 0x00, 0x30, 0x0a, 0x40] +          # OperationRegion(REG0, SystemIO, 0x3000, 0x40)
                 [0x08] + _nm('AAAA') + [0x0a, 0x01])                                          # Name(AAAA, 1)
FIELD_PRELUDE2 = _pkg([0x5b, 0x81], _nm('REG0') + [0x01] + _nm('IDX0') + [0x08] + _nm('DAT0') + [0x08] + _nm('BNK0') + [0x08])


def fieldlist_systematic():
    """deterministic part: every container x every Connection(Buffer) length mode x every size operand, the element repeated"""
    import random as _r
    out = []
    rng = _r.Random(0x6669656c)
    for which in ('field', 'index', 'bank'):
        for mode in ('zero', 'one', 'short', 'exact', 'over'):
            for size_enc in (0, 1, 2, 4):
                for rep in (2, 3):
                    elems = []
                    for _ in range(rep):
                        elems.append(field_element(rng, 'connbuf', mode, size_enc, rng.choice([1, 1, 2, 3, 4])))
                        if mode != 'zero':
                            elems.append(field_element(rng, 'named', k=1))
                    out.append(FIELD_PRELUDE + FIELD_PRELUDE2 + field_container(rng, which, elems))
    # the plain shape of a zero-length connection buffer: 02 11 00 followed by a byte that reads as a reserved field
    for which in ('field', 'index', 'bank'):
        for rep in (1, 2, 3, 4):
            out.append(field_container(rng, which, [[0x02, 0x11, 0x00, 0x08]] * rep))
            out.append(FIELD_PRELUDE + field_container(rng, which, [[0x02, 0x11, 0x00, 0x08]] * rep) + [0x08] + _nm('ZZZZ') + [0x01])
    return out


def fieldlist_case(rng):
    """a table made of field containers whose lists repeat every element kind 2-4 times with boundary lengths"""
    t = []
    if rng.random() < 0.8:
        t += FIELD_PRELUDE
    if rng.random() < 0.5:
        t += FIELD_PRELUDE2
    for _ in range(rng.choice([1, 1, 2, 3])):
        which = rng.choice(['field', 'field', 'index', 'bank'])
        elems = []
        kinds = [rng.choice(FE_KINDS) for _ in range(rng.choice([1, 2, 3]))]
        for kind in kinds:
            for _ in range(rng.choice([2, 3, 4])):
                elems.append(field_element(rng, kind))
        if rng.random() < 0.5:
            rng.shuffle(elems)
        outer = rng.choice([None, None, None, -1, 1, -2, 2, 5, -len(elems[-1])])
        c = field_container(rng, which, elems, outer)
        if rng.random() < 0.3:
            c = _pkg(rng.choice([[0x10], [0x5b, 0x82]]), rng.choice([_nm('_SB_'), _nm('DEV0'), [0x5c] + _nm('_SB_')]) + c)
        t += c
        if rng.random() < 0.6:
            t += [0x08] + rand_nameseg(rng) + [0x0a, rng.randrange(256)]
    return t


# ---- names that PrettyPrint / toString treat specially, with values of every encoding ----------------------------
SPECIAL_NAMES = ['_HID', '_HID', '_HID', '_CID', '_ADR', '_UID', '_STA', '_CRS', '_PRS', '_PRT', '_BBN', '_SEG', '_STR', '_DDN',
                 '_SUN', '_INI', '_REG', '_OSI', '_REV', '_OS_', '_GL_', '_S5_', '_PSS', '_PR0', '_Q00', '_L00', '_E00', '_T_0']


def data_value(rng, enc=None):
    """a data object in the given (or a random) encoding with random / boundary contents"""
    enc = enc or rng.choice(['zero', 'one', 'ones', 'byte', 'word', 'dword', 'dword', 'dword', 'qword', 'string', 'buffer', 'package', 'name'])
    edge = rng.random() < 0.35
    if enc == 'zero':
        return [0x00]
    if enc == 'one':
        return [0x01]
    if enc == 'ones':
        return [0xff]
    if enc == 'byte':
        return [0x0a, rng.choice([0, 0xff, 0x7f, 0x80]) if edge else rng.randrange(256)]
    if enc in ('word', 'dword', 'qword'):
        n = {'word': 2, 'dword': 4, 'qword': 8}[enc]
        op = {'word': 0x0b, 'dword': 0x0c, 'qword': 0x0e}[enc]
        if edge:
            return [op] + rng.choice([[0x00] * n, [0xff] * n, [0x7f] + [0xff] * (n - 1), [0xff] + [0x00] * (n - 1), [0x41, 0xd0] + [0x0c, 0x0f][:n - 2] + [0] * max(n - 4, 0)])[:n + 1]
        return [op] + rand_bytes(rng, n)
    if enc == 'string':
        return [0x0d] + [rng.randrange(1, 0x80) for _ in range(rng.choice([0, 1, 4, 7, 8, 20]))] + [0x00]
    if enc == 'buffer':
        data = rand_bytes(rng, rng.choice([0, 1, 4, 7, 8, 16]))
        return _pkg([0x11], [0x0a, rng.choice([len(data), len(data), 0, len(data) + 3])] + data)
    if enc == 'package':
        n = rng.choice([0, 1, 2, 3])
        body = []
        for _ in range(n):
            body += data_value(rng, rng.choice(['zero', 'byte', 'dword', 'string', 'qword']))
        return _pkg([0x12], [rng.choice([n, n, n + 1, 0])] + body)
    return rand_nameseg(rng)


def special_names_systematic():
    """deterministic part: Name(_HID, v) for every encoding, and every 5-bit letter code in each EISA letter position"""
    import random as _r
    rng = _r.Random(0x5f484944)
    out = []
    for nmx in ('_HID', '_CID', '_ADR', '_UID'):
        for enc in ('zero', 'one', 'ones', 'byte', 'word', 'dword', 'qword', 'string', 'buffer', 'package'):
            out.append([0x08] + _nm(nmx) + data_value(rng, enc))
    for code in range(32):
        for pos in range(3):
            codes = [rng.randrange(1, 27) for _ in range(3)]
            codes[pos] = code
            ident = (codes[0] << 26) | (codes[1] << 21) | (codes[2] << 16) | rng.randrange(0x10000)
            be = [(ident >> 24) & 0xff, (ident >> 16) & 0xff, (ident >> 8) & 0xff, ident & 0xff]
            dev = _pkg([0x5b, 0x82], _nm('DEV0') + [0x08] + _nm('_HID') + [0x0c] + be)
            out.append(dev if pos else [0x08] + _nm('_HID') + [0x0c] + be)
    return out


def special_name_case(rng):
    """devices / scopes / top level with specially named objects carrying values of every encoding"""
    def named(nmx):
        r = rng.random()
        if r < 0.7:
            return [0x08] + _nm(nmx) + data_value(rng)
        if r < 0.8:
            return _pkg([0x14], _nm(nmx) + [rng.randrange(8), 0xa4] + data_value(rng))            # Method(nm){Return(v)}
        if r < 0.9:
            return _pkg([0x5b, 0x82], _nm(nmx) + data_value(rng, rng.choice(['dword', 'byte', 'string'])))   # Device(nm){ v }
        return _pkg([0x10], _nm(nmx) + [0x08] + _nm(rng.choice(SPECIAL_NAMES)) + data_value(rng))
    t = []
    for _ in range(rng.choice([1, 1, 2, 3])):
        items = []
        for _ in range(rng.choice([1, 2, 3, 4])):
            items += named(rng.choice(SPECIAL_NAMES))
        r = rng.random()
        if r < 0.4:
            t += _pkg([0x5b, 0x82], rand_nameseg(rng) + items)
        elif r < 0.6:
            t += _pkg([0x10], [0x5c] + _nm('_SB_') + _pkg([0x5b, 0x82], rand_nameseg(rng) + items))
        else:
            t += items
    return t


def generated_tables(rng, n):
    """well-formed tables from the grammar generator (see gen_program); list of lists of payloads"""
    out = []
    for _ in range(n):
        prog = gen_program(rng, small=True)
        out.append([t for t in prog['bytes']])
    return out


def parse_cases(rng, n, tier):
    real = real_tables()
    out = []
    pool = [list(s) for s in SEEDS] + [v for v in real.values()]
    gens = generated_tables(rng, {'quick': 60, 'thorough': 600, 'search': 120}[tier])
    for g in gens:
        pool += g
    # unmutated seeds and real tables first (agreement on well-formed input)
    for s in SEEDS:
        out.append((join_tables([s]), 'seed'))
    if 'DSDT.aml' in real and 'SSDT.aml' in real:
        out.append((join_tables([real['DSDT.aml'], real['SSDT.aml']]), 'real'))
    if 'parser-testsuite-DSDT.aml' in real:
        out.append((join_tables([real['parser-testsuite-DSDT.aml']]), 'real'))
    for g in gens[:20]:
        out.append((join_tables(g), 'generated'))
    # field lists with boundary package lengths and specially named objects: a deterministic part in every run, then random ones
    sysf = fieldlist_systematic()
    sysn = special_names_systematic()
    nf = {'quick': 60, 'thorough': len(sysf), 'search': 60}[tier]
    nn = {'quick': 70, 'thorough': len(sysn), 'search': 70}[tier]
    for t in sysf[-24:] + rng.sample(sysf[:-24], max(0, min(nf, len(sysf)) - 24)):
        out.append((join_tables([t]), 'fieldlist'))
    for t in sysn[:40] + rng.sample(sysn[40:], max(0, min(nn, len(sysn)) - 40)):
        out.append((join_tables([t]), 'special-name'))
    pool += sysf[::7] + sysn[::9]
    # a table with many top-level objects followed by a tiny one: the later passes walk the whole tree (fuel / time by total size)
    for _ in range({'quick': 2, 'thorough': 12, 'search': 2}[tier]):
        big = []
        for i in range(rng.randrange(300, 520)):
            big += [0x08] + rand_nameseg(rng) + rng.choice([[0x00], [0x01], [0x0a, rng.randrange(256)]])
        small = rng.choice([[0x08] + _nm('ZZZZ') + [0x01], special_name_case(rng), rng.choice(SEEDS[:4])])
        out.append((join_tables([big, small]), 'many-then-small'))
    big_budget = {'quick': 40, 'thorough': 800, 'search': 100}[tier]      # mutations of the 8.6 KB DSDT
    big_agree = {'quick': 1, 'thorough': 20, 'search': 0}[tier]           # ... of which with model agreement (13 s each)
    while len(out) < n:
        r = rng.random()
        if r < 0.08:
            out.append((join_tables([rand_bytes(rng, rng.choice([0, 1, 2, 3, 5, 8, 13, 30, 80]))]), 'random'))
        elif r < 0.2:
            out.append((join_tables([soup(rng, rng.choice([3, 6, 10, 16, 30, 60, 150]))]), 'soup'))
        elif r < 0.3:
            if rng.random() < 0.6:
                t = fieldlist_case(rng)
                how = 'fieldlist'
            else:
                t = special_name_case(rng)
                how = 'special-name'
            if rng.random() < 0.25:
                t, _ = mutate(rng, t, pool)
                how += '-mut'
            out.append((join_tables([t]), how))
        elif r < 0.55:
            t, how = mutate(rng, rng.choice(SEEDS), pool)
            if rng.random() < 0.3:
                t, how2 = mutate(rng, t, pool)
                how += '+' + how2
            out.append((join_tables([t]), 'seed-' + how.split('+')[0]))
        elif r < 0.8 and gens:
            g = [list(t) for t in rng.choice(gens)]
            i = rng.randrange(len(g))
            g[i], how = mutate(rng, g[i], pool)
            if rng.random() < 0.25:
                g[i], _ = mutate(rng, g[i], pool)
            out.append((join_tables(g), 'gen-' + how))
        else:
            which = rng.random()
            if which < 0.55 and 'parser-testsuite-DSDT.aml' in real:
                t, how = mutate(rng, real['parser-testsuite-DSDT.aml'], pool)
                out.append((join_tables([t]), 'real-' + how))
            elif which < 0.8 and 'SSDT.aml' in real:
                t, how = mutate(rng, real['SSDT.aml'], pool)
                out.append((join_tables([t]), 'real-' + how))
            elif big_budget > 0 and 'DSDT.aml' in real:
                big_budget -= 1
                t, how = mutate(rng, real['DSDT.aml'], pool)
                tabs = [t]
                if rng.random() < 0.5 and 'SSDT.aml' in real:
                    tabs.append(real['SSDT.aml'])
                c = join_tables(tabs)
                if big_agree > 0:
                    big_agree -= 1
                    out.append((c, 'real-' + how))
                else:
                    c[0] = 2          # monitors only: the list-based pool of the model is quadratic on 5000 objects
                    out.append((c, 'bigmon-' + how))
            else:
                t, how = mutate(rng, rng.choice(SEEDS), pool)
                out.append((join_tables([t]), 'seed-' + how))
    return out


# =============================================================================================
# Grammar: AST, encoder, serialisation (for Coq's decoder), namespace specification (ns)
# =============================================================================================
# AST nodes are tuples (tag, ...).  Name strings: ('nm', root, carets, multi, [seg, ...]) with a seg a
# 32-bit big-endian number of its 4 bytes.  k = number of bytes of the PkgLength encoding.

T_CONST, T_STR, T_BUFFER, T_PACKAGE, T_OP, T_NULL, T_REF, T_CALL, T_IF, T_ELSE, T_WHILE, T_SCOPE, T_DEVICE, T_THERMAL, \
    T_PROCESSOR, T_POWERRES, T_METHOD, T_NAME, T_OPREGION, T_FIELD, T_INDEXFIELD, T_BANKFIELD, T_MUTEX, T_EVENT, T_DATA = range(25)
F_NAMED, F_RESERVED, F_ACCESS, F_EXTACCESS, F_CONNNAME, F_CONNBUF = range(6)

OP_ZERO, OP_ONE, OP_ONES, OP_BYTE, OP_WORD, OP_DWORD, OP_QWORD, OP_STRING = 0x00, 0x01, 0xff, 0x0a, 0x0b, 0x0c, 0x0e, 0x0d
OP_SCOPE, OP_BUFFER, OP_PACKAGE, OP_METHOD, OP_NAME = 0x10, 0x11, 0x12, 0x14, 0x08
OP_IF, OP_ELSE, OP_WHILE = 0xa0, 0xa1, 0xa2
OP_MUTEX, OP_EVENT, OP_OPREGION, OP_FIELD, OP_DEVICE, OP_PROCESSOR, OP_POWERRES, OP_THERMAL, OP_INDEXFIELD, OP_BANKFIELD = \
    0x100, 0x101, 0x17f, 0x180, 0x181, 0x182, 0x183, 0x184, 0x185, 0x186
OP_BYTELIST, OP_CONNECTION, OP_NAMEDFIELD = 0x1f7, 0x1f8, 0x1f9
TOK_NAMEREF, TOK_CALL = 0x300, 0x301


def seg(s):
    b = s.encode() if isinstance(s, str) else bytes(s)
    assert len(b) == 4
    return (b[0] << 24) | (b[1] << 16) | (b[2] << 8) | b[3]


def seg_bytes(v):
    return [(v >> 24) & 0xff, (v >> 16) & 0xff, (v >> 8) & 0xff, v & 0xff]


def nm(segs, root=False, carets=0, multi=False):
    return ('nm', 1 if root else 0, carets, 1 if multi else 0, [seg(s) if not isinstance(s, int) else s for s in segs])


def enc_name(n):
    _, root, carets, multi, segs = n
    out = ([0x5c] if root else []) + [0x5e] * carets
    if len(segs) == 0:
        return out + [0x00]
    if multi or len(segs) > 2:
        out += [0x2f, len(segs)]
    elif len(segs) == 2:
        out += [0x2e]
    for s in segs:
        out += seg_bytes(s)
    return out


def enc_op(op):
    return [op] if op <= 0xff else [0x5b, op - 0xff]


def enc_pkg(op, k, body):
    return enc_op(op) + enc_pkglen_width(k + len(body), k) + body


def le(v, n):
    return [(v >> (8 * i)) & 0xff for i in range(n)]


CONST_BYTES = {OP_ZERO: 0, OP_ONE: 0, OP_ONES: 0, OP_BYTE: 1, OP_WORD: 2, OP_DWORD: 4, OP_QWORD: 8}


def enc_felem(e):
    t = e[0]
    if t == F_NAMED:
        return seg_bytes(e[1]) + enc_pkglen_width(e[3], e[2])
    if t == F_RESERVED:
        return [0x00] + enc_pkglen_width(e[2], e[1])
    if t == F_ACCESS:
        return [0x01, e[1], e[2]]
    if t == F_EXTACCESS:
        return [0x03, e[1], e[2], e[3]]
    if t == F_CONNNAME:
        return [0x02] + enc_name(e[1])
    if t == F_CONNBUF:
        # 0x02 BufferOp PkgLength (Byte|Word|DWord const = number of bytes) bytes
        body = [e[2]] + le(len(e[3]), CONST_BYTES[e[2]]) + list(e[3])
        return [0x02, OP_BUFFER] + enc_pkglen_width(e[1] + len(body), e[1]) + body
    raise ValueError(e)


def enc(a):
    t = a[0]
    if t == T_CONST:
        return enc_op(a[1]) + le(a[2], CONST_BYTES[a[1]])
    if t == T_DATA:
        return le(a[2], a[1])
    if t == T_STR:
        return [OP_STRING] + list(a[1]) + [0]
    if t == T_BUFFER:
        return enc_pkg(OP_BUFFER, a[1], enc(a[2]) + list(a[3]))
    if t == T_PACKAGE:
        return enc_pkg(OP_PACKAGE, a[1], [a[2]] + encs(a[3]))
    if t == T_OP:
        return enc_op(a[1]) + encs(a[2])
    if t == T_NULL:
        return [0x00]
    if t == T_REF:
        return enc_name(a[1])
    if t == T_CALL:
        return enc_name(a[1]) + encs(a[2])
    if t == T_IF:
        return enc_pkg(OP_IF, a[1], enc(a[2]) + encs(a[3]))
    if t == T_ELSE:
        return enc_pkg(OP_ELSE, a[1], encs(a[2]))
    if t == T_WHILE:
        return enc_pkg(OP_WHILE, a[1], enc(a[2]) + encs(a[3]))
    if t == T_SCOPE:
        return enc_pkg(OP_SCOPE, a[1], enc_name(a[2]) + encs(a[3]))
    if t == T_DEVICE:
        return enc_pkg(OP_DEVICE, a[1], enc_name(a[2]) + encs(a[3]))
    if t == T_THERMAL:
        return enc_pkg(OP_THERMAL, a[1], enc_name(a[2]) + encs(a[3]))
    if t == T_PROCESSOR:
        return enc_pkg(OP_PROCESSOR, a[1], enc_name(a[2]) + [a[3]] + le(a[4], 4) + [a[5]] + encs(a[6]))
    if t == T_POWERRES:
        return enc_pkg(OP_POWERRES, a[1], enc_name(a[2]) + [a[3]] + le(a[4], 2) + encs(a[5]))
    if t == T_METHOD:
        return enc_pkg(OP_METHOD, a[1], enc_name(a[2]) + [a[3]] + encs(a[4]))
    if t == T_NAME:
        return [OP_NAME] + enc_name(a[1]) + enc(a[2])
    if t == T_OPREGION:
        return enc_op(OP_OPREGION) + enc_name(a[1]) + [a[2]] + enc(a[3]) + enc(a[4])
    if t == T_FIELD:
        return enc_pkg(OP_FIELD, a[1], enc_name(a[2]) + [a[3]] + sum((enc_felem(e) for e in a[4]), []))
    if t == T_INDEXFIELD:
        return enc_pkg(OP_INDEXFIELD, a[1], enc_name(a[2]) + enc_name(a[3]) + [a[4]] + sum((enc_felem(e) for e in a[5]), []))
    if t == T_BANKFIELD:
        return enc_pkg(OP_BANKFIELD, a[1], enc_name(a[2]) + enc_name(a[3]) + enc(a[4]) + [a[5]] + sum((enc_felem(e) for e in a[6]), []))
    if t == T_MUTEX:
        return enc_op(OP_MUTEX) + enc_name(a[1]) + [a[2]]
    if t == T_EVENT:
        return enc_op(OP_EVENT) + enc_name(a[1])
    raise ValueError(a)


def encs(l):
    out = []
    for a in l:
        out += enc(a)
    return out


# ---- serialisation (prefix code read by Aml/Grammar.v dec_ast) --------------------------------

def ser_name(n):
    return [n[1], n[2], n[3], len(n[4])] + list(n[4])


def ser_list(l):
    out = [len(l)]
    for a in l:
        out += ser(a)
    return out


def ser_bytes(b):
    return [len(b)] + list(b)


def ser_felem(e):
    t = e[0]
    if t == F_CONNNAME:
        return [t] + ser_name(e[1])
    if t == F_CONNBUF:
        return [t, e[1], e[2]] + ser_bytes(e[3])
    return list(e)


def ser(a):
    t = a[0]
    if t in (T_CONST, T_DATA):
        return [t, a[1], a[2]]
    if t == T_STR:
        return [t] + ser_bytes(a[1])
    if t == T_BUFFER:
        return [t, a[1]] + ser(a[2]) + ser_bytes(a[3])
    if t == T_PACKAGE:
        return [t, a[1], a[2]] + ser_list(a[3])
    if t == T_OP:
        return [t, a[1]] + ser_list(a[2])
    if t == T_NULL:
        return [t]
    if t == T_REF:
        return [t] + ser_name(a[1])
    if t == T_CALL:
        return [t] + ser_name(a[1]) + ser_list(a[2])
    if t in (T_IF, T_WHILE):
        return [t, a[1]] + ser(a[2]) + ser_list(a[3])
    if t == T_ELSE:
        return [t, a[1]] + ser_list(a[2])
    if t in (T_SCOPE, T_DEVICE, T_THERMAL):
        return [t, a[1]] + ser_name(a[2]) + ser_list(a[3])
    if t == T_PROCESSOR:
        return [t, a[1]] + ser_name(a[2]) + [a[3], a[4], a[5]] + ser_list(a[6])
    if t == T_POWERRES:
        return [t, a[1]] + ser_name(a[2]) + [a[3], a[4]] + ser_list(a[5])
    if t == T_METHOD:
        return [t, a[1]] + ser_name(a[2]) + [a[3]] + ser_list(a[4])
    if t == T_NAME:
        return [t] + ser_name(a[1]) + ser(a[2])
    if t == T_OPREGION:
        return [t] + ser_name(a[1]) + [a[2]] + ser(a[3]) + ser(a[4])
    if t == T_FIELD:
        return [t, a[1]] + ser_name(a[2]) + [a[3], len(a[4])] + sum((ser_felem(e) for e in a[4]), [])
    if t == T_INDEXFIELD:
        return [t, a[1]] + ser_name(a[2]) + ser_name(a[3]) + [a[4], len(a[5])] + sum((ser_felem(e) for e in a[5]), [])
    if t == T_BANKFIELD:
        return [t, a[1]] + ser_name(a[2]) + ser_name(a[3]) + ser(a[4]) + [a[5], len(a[6])] + sum((ser_felem(e) for e in a[6]), [])
    if t == T_MUTEX:
        return [t] + ser_name(a[1]) + [a[2]]
    if t == T_EVENT:
        return [t] + ser_name(a[1])
    raise ValueError(a)


# ---- the specification: ns -------------------------------------------------------------------
# env: dict path(tuple of segs) -> kind opcode.  Mirrors Aml/Grammar.v (ns) definition by definition.

DEFAULT_SCOPES = [(), (seg('_GPE'),), (seg('_PR_'),), (seg('_SB_'),), (seg('_SI_'),), (seg('_TZ_'),)]
SCOPE_KINDS = (0x1f6, OP_DEVICE, OP_PROCESSOR, OP_POWERRES, OP_THERMAL, OP_METHOD)


def start_scope(scope, n):
    """scope after the root / caret prefix of name n; None = above the root"""
    _, root, carets, _, _ = n
    if root:
        return ()
    if carets > len(scope):
        return None
    return tuple(scope[:len(scope) - carets])


def decl_path(scope, n):
    st = start_scope(scope, n)
    if st is None or not n[4]:
        return None
    return st + tuple(n[4])


def lookup(env, scope, n):
    """ACPI reference rules: absolute / parent-prefixed / multi-segment paths are resolved exactly;
    a single unprefixed segment is searched in the scope and then in each enclosing scope."""
    _, root, carets, _, segs = n
    st = start_scope(scope, n)
    if st is None:
        return None
    if not root and carets == 0 and len(segs) == 1:
        s = tuple(scope)
        while True:
            if s + (segs[0],) in env:
                return s + (segs[0],)
            if not s:
                return None
            s = s[:-1]
    p = st + tuple(segs)
    return p if p in env else None


DECL_KIND = {T_DEVICE: OP_DEVICE, T_THERMAL: OP_THERMAL, T_PROCESSOR: OP_PROCESSOR, T_POWERRES: OP_POWERRES, T_METHOD: OP_METHOD,
             T_NAME: OP_NAME, T_OPREGION: OP_OPREGION, T_MUTEX: OP_MUTEX, T_EVENT: OP_EVENT}


def body_of(a):
    return {T_DEVICE: 3, T_THERMAL: 3, T_PROCESSOR: 6, T_POWERRES: 5, T_METHOD: 4}.get(a[0])


def felems_of(a):
    return {T_FIELD: 4, T_INDEXFIELD: 5, T_BANKFIELD: 6}.get(a[0])


def collect(items, scope, env, out):
    """one pass over a statement list: add to out the path of every declaration whose scope is resolved in env"""
    for a in items:
        t = a[0]
        if t == T_SCOPE:
            p = lookup(env, scope, a[2])
            if p is not None:
                collect(a[3], p, env, out)
        elif t in DECL_KIND:
            p = decl_path(scope, a[1] if t in (T_NAME, T_OPREGION, T_MUTEX, T_EVENT) else a[2])
            if p is not None:
                out[p] = DECL_KIND[t]
                bi = body_of(a)
                if bi is not None:
                    collect(a[bi], p, env, out)
        elif felems_of(a) is not None:
            for e in a[felems_of(a)]:
                if e[0] == F_NAMED:
                    out[tuple(scope) + (e[1],)] = OP_NAMEDFIELD


def resolve_env(tables):
    env = {p: 0x1f6 for p in DEFAULT_SCOPES}
    n = sum(count_scopes(t) for t in tables) + 2
    for _ in range(n):
        out = dict(env)
        for t in tables:
            collect(t, (), env, out)
        if out == env:
            break
        env = out
    return env


def count_scopes(items):
    c = 0
    for a in items:
        if not isinstance(a, tuple):
            continue
        if a[0] == T_SCOPE:
            c += 1 + count_scopes(a[3])
        else:
            bi = body_of(a)
            if bi is not None:
                c += count_scopes(a[bi])
    return c


def tok_path(p):
    return [len(p)] + list(p)


def tok_const(op, v):
    return [op, 1, v, 0]


def tok_bytes(op, b):
    return [op, 2, len(b)] + list(b) + [0]


def r_name(env, scope, n):
    p = lookup(env, scope, n)
    if p is not None:
        return [TOK_NAMEREF, 1] + tok_path(p)
    raw = enc_name(n)
    if not n[4]:
        raw = raw[:-1]        # the NullName terminator is not part of the name; prefixes are
    return [TOK_NAMEREF, 0, len(raw)] + raw


def r_expr(env, scope, a):
    t = a[0]
    if t == T_CONST:
        return tok_const(a[1], a[2]) if a[1] in (OP_BYTE, OP_WORD, OP_DWORD, OP_QWORD) else [a[1], 0, 0]
    if t == T_DATA:
        return tok_const({1: OP_BYTE, 2: OP_WORD, 4: OP_DWORD, 8: OP_QWORD}[a[1]], a[2])
    if t == T_STR:
        return tok_bytes(OP_STRING, a[1])
    if t == T_BUFFER:
        return [OP_BUFFER, 0, 2] + r_expr(env, scope, a[2]) + tok_bytes(OP_BYTELIST, a[3])
    if t == T_PACKAGE:
        return [OP_PACKAGE, 0, 1 + len(a[3])] + tok_const(OP_BYTE, a[2]) + sum((r_expr(env, scope, e) for e in a[3]), [])
    if t == T_OP:
        args = [x for x in a[2] if x[0] != T_NULL]
        return [a[1], 0, len(args)] + sum((r_expr(env, scope, x) for x in args), [])
    if t == T_REF:
        return r_name(env, scope, a[1])
    if t == T_CALL:
        p = lookup(env, scope, a[1])
        return [TOK_CALL] + (tok_path(p) if p is not None else [0xffffffff]) + [len(a[2])] + sum((r_expr(env, scope, x) for x in a[2]), [])
    raise ValueError(('not an expression', a))


def is_noop(a):
    return a[0] == T_OP and a[1] == 0xa3


def r_stmt(env, scope, a):
    t = a[0]
    if is_noop(a):
        return []             # Noop leaves no object
    if t == T_IF:
        return [OP_IF] + r_stmt(env, scope, a[2]) + r_seq(env, scope, a[3])
    if t == T_ELSE:
        return [OP_ELSE] + r_seq(env, scope, a[2])
    if t == T_WHILE:
        return [OP_WHILE] + r_stmt(env, scope, a[2]) + r_seq(env, scope, a[3])
    return r_expr(env, scope, a)


def is_decl(a):
    return a[0] in DECL_KIND or a[0] == T_SCOPE


def r_seq(env, scope, items):
    out = []
    for a in items:
        if not is_decl(a) and felems_of(a) is None:
            out += r_stmt(env, scope, a)
    return out


def r_fieldcontainer(env, scope, a):
    t = a[0]
    elems = a[felems_of(a)]
    conns = []
    for e in elems:
        if e[0] == F_CONNNAME:
            conns += [OP_CONNECTION, 0, 1] + r_name(env, scope, e[1])
        elif e[0] == F_CONNBUF:
            conns += [OP_CONNECTION, 0, 1] + tok_bytes(OP_BYTELIST, e[3])
    nconn = sum(1 for e in elems if e[0] in (F_CONNNAME, F_CONNBUF))
    if t == T_FIELD:
        return [OP_FIELD, 0, 2 + nconn] + r_name(env, scope, a[2]) + tok_const(OP_BYTE, a[3]) + conns
    if t == T_INDEXFIELD:
        return [OP_INDEXFIELD, 0, 3 + nconn] + r_name(env, scope, a[2]) + r_name(env, scope, a[3]) + tok_const(OP_BYTE, a[4]) + conns
    return [OP_BANKFIELD, 0, 4 + nconn] + r_name(env, scope, a[2]) + r_name(env, scope, a[3]) + r_expr(env, scope, a[4]) + tok_const(OP_BYTE, a[5]) + conns


def field_units(scope, a):
    """entries of the field units of a Field / IndexField / BankField"""
    t = a[0]
    flags = a[{T_FIELD: 3, T_INDEXFIELD: 4, T_BANKFIELD: 5}[t]]
    kind = {T_FIELD: OP_FIELD, T_INDEXFIELD: OP_INDEXFIELD, T_BANKFIELD: OP_BANKFIELD}[t]
    acc_type, lock, upd = flags & 0xf, (flags >> 4) & 1, (flags >> 5) & 3
    acc_attr = acc_len = 0
    off = 0
    conn = 0          # 0 = none, k = the k-th connection of the container
    out = []
    for e in a[felems_of(a)]:
        if e[0] == F_NAMED:
            out.append([1] + tok_path(tuple(scope) + (e[1],)) + [OP_NAMEDFIELD, kind, off, e[3], acc_len, acc_type, acc_attr, lock, upd, conn])
            off = (off + e[3]) & 0xffffffff
        elif e[0] == F_RESERVED:
            off = (off + e[2]) & 0xffffffff
        elif e[0] == F_ACCESS:
            acc_type, acc_attr = e[1], e[2]
        elif e[0] == F_EXTACCESS:
            acc_type, acc_attr, acc_len = e[1], e[2], e[3]
        else:
            conn += 1
    return out


def entries(items, scope, env, out):
    for a in items:
        t = a[0]
        if t == T_SCOPE:
            p = lookup(env, scope, a[2])
            if p is not None:
                entries(a[3], p, env, out)
            else:
                out.append([3] + tok_path(tuple(scope)))         # unresolvable Scope directive: ill-formed program
        elif t in DECL_KIND:
            name = a[1] if t in (T_NAME, T_OPREGION, T_MUTEX, T_EVENT) else a[2]
            p = decl_path(scope, name)
            if p is None:
                out.append([3] + tok_path(tuple(scope)))
                continue
            e = [1] + tok_path(p) + [DECL_KIND[t]]
            if t == T_PROCESSOR:
                e += tok_const(OP_BYTE, a[3]) + tok_const(OP_DWORD, a[4]) + tok_const(OP_BYTE, a[5])
            elif t == T_POWERRES:
                e += tok_const(OP_BYTE, a[3]) + tok_const(OP_WORD, a[4])
            elif t == T_METHOD:
                e += tok_const(OP_BYTE, a[3]) + r_seq(env, p, a[4])
            elif t == T_NAME:
                e += r_expr(env, scope, a[2])
            elif t == T_OPREGION:
                e += tok_const(OP_BYTE, a[2]) + r_expr(env, scope, a[3]) + r_expr(env, scope, a[4])
            elif t == T_MUTEX:
                e += tok_const(OP_BYTE, a[2])
            out.append(e)
            bi = body_of(a)
            if bi is not None:
                entries(a[bi], p, env, out) if t != T_METHOD else entries([x for x in a[bi] if is_decl(x) or felems_of(x) is not None], p, env, out)
        elif felems_of(a) is not None:
            out.append([2] + tok_path(tuple(scope)) + r_fieldcontainer(env, scope, a))
            out += field_units(scope, a)
        elif not is_noop(a):
            out.append([2] + tok_path(tuple(scope)) + r_stmt(env, scope, a))


def ns(tables):
    """tables: list of statement lists -> sorted list of entries (lists of numbers)"""
    env = resolve_env(tables)
    out = []
    for t in tables:
        entries(t, (), env, out)
    out.sort()
    return out


def flat_entries(es):
    out = [len(es)]
    for e in es:
        out += [len(e)] + e
    return out


# =============================================================================================
# Program generator: plans a namespace, then emits it in one or two tables using inline bodies,
# Scope directives, parent-prefixed and multi-segment names, forward references and nested calls.
# =============================================================================================
# generic fixed-arity opcodes (as in the parser's opcode table): t TermArg, T Target (may be null),
# S SuperName (local/arg/name/Debug), n NameString, b/w/d byte/word/dword data
OPS_EXPR = [   # value-producing, usable as TermArg
    (0x72, 'ttT'), (0x73, 'ttT'), (0x74, 'ttT'), (0x77, 'ttT'), (0x79, 'ttT'), (0x7a, 'ttT'), (0x7b, 'ttT'), (0x7c, 'ttT'),
    (0x7d, 'ttT'), (0x7e, 'ttT'), (0x7f, 'ttT'), (0x85, 'ttT'), (0x88, 'ttT'), (0x78, 'ttTT'), (0x80, 'tT'), (0x81, 'tT'), (0x82, 'tT'),
    (0x83, 't'), (0x87, 'S'), (0x8e, 'S'), (0x90, 'tt'), (0x91, 'tt'), (0x92, 't'), (0x93, 'tt'), (0x94, 'tt'), (0x95, 'tt'),
    (0x96, 'tT'), (0x97, 'tT'), (0x98, 'tT'), (0x99, 'tT'), (0x9e, 'tttT'), (0x71, 'S'), (0x75, 'S'), (0x76, 'S'), (0x70, 'tS'),
    (0x127, 'tT'), (0x128, 'tT'), (0x111, 'SS'), (0x132, ''), (0x12f, ''),
]
OPS_STMT = [   # statements
    (0x70, 'tS'), (0x70, 'tS'), (0x70, 'tS'), (0x75, 'S'), (0x76, 'S'), (0x86, 'St'), (0x9d, 'tS'), (0x8a, 'ttn'), (0x8b, 'ttn'), (0x8c, 'ttn'),
    (0x8d, 'ttn'), (0x8f, 'ttn'), (0x112, 'tttn'), (0x120, 't'), (0x121, 't'), (0x122, 'Sw'), (0x123, 't'), (0x124, 'St'), (0x125, 'S'), (0x126, 'S'),
    (0x131, 'bdt'), (0xa3, ''), (0xcc, ''), (0x72, 'ttT'), (0x7b, 'ttT'), (0x78, 'ttTT'),
]
FEATURE_PATH_THROUGH_DEVICE = 1      # a path steps from a Device-like object (not a ScopeBlock) to one of its children
FEATURE_CARET_IN_DEVICE = 2          # a '^' prefix is used inside a Device-like scope
FEATURE_NONCANON_MULTI = 4           # a name of one or two segments written with the MultiNamePrefix
FEATURE_EMPTY_IF = 8                 # an If whose body is empty
FEATURE_PATH_IN_NAMED_ARG = 32       # a '^'-prefixed or relative multi-segment name inside an argument of a named object
FEATURE_DEFERRED_NESTED_PKG = 64     # inside a While body: an If/Else/While that is not the last statement of its block
FEATURE_EMPTY_BUFFER_DEFERRED = 128  # a Buffer without initialiser bytes nested in a deferred package (While body, Buffer size, BankField value)
FEATURE_REGION_EXPR = 16             # an operator expression / call with args as offset of an OperationRegion or as value of a relocated Name


class Gen:
    def __init__(self, rng, small):
        self.rng = rng
        self.small = small
        self.counter = 0
        self.features = 0
        # plan: path -> node
        self.scopes = {}
        for p in DEFAULT_SCOPES:
            self.scopes[p] = dict(path=p, kind=None, devlike=False, table=0, leaves=[], children=[])
        self.methods = {}      # path -> (argc, table)
        self.values = {}       # path -> table   (names usable as values / targets)
        self.regions = {}      # path -> table
        self.mutexes = {}
        self.events = {}
        self.ntables = 2 if rng.random() < 0.3 else 1
        # a few programs may use ONE of the constructs behind the known findings (so that each finding is
        # attributed to its own signature)
        self.allowed = rng.choice([FEATURE_PATH_THROUGH_DEVICE, FEATURE_CARET_IN_DEVICE, FEATURE_NONCANON_MULTI, FEATURE_EMPTY_IF,
                                   FEATURE_REGION_EXPR, FEATURE_PATH_IN_NAMED_ARG, FEATURE_DEFERRED_NESTED_PKG,
                                   FEATURE_EMPTY_BUFFER_DEFERRED]) if rng.random() < 0.1 else 0
        self.allow = self.allowed != 0

    # ---- names ----
    def fresh(self, lead):
        self.counter += 1
        c = self.counter
        if self.rng.random() < 0.12:
            # boundary lead characters of a NameSeg ('A'..'Z' and '_'): comparisons against the ends of the range
            lead = self.rng.choice('ZZA_')
        al = 'ABCDEFGHIJKLMNOPQRSTUVWXYZ0123456789_'
        s = lead + al[(c // (37 * 37)) % 37] + al[(c // 37) % 37] + al[c % 37]
        return seg(s)

    def k_for(self, n, body_len):
        """a PkgLength width admissible for a body of body_len bytes: mostly minimal, sometimes wider"""
        ks = [k for k in (1, 2, 3, 4) if k + body_len <= pkglen_max(k)]
        r = self.rng.random()
        if r < 0.7:
            return ks[0]
        return self.rng.choice(ks)

    def devlike(self, path):
        return self.scopes[tuple(path)]['devlike'] if tuple(path) in self.scopes else True

    # ---- name strings for a target path, as seen from scope `frm` ----
    def name_forms(self, frm, target, decl, named_arg=False):
        """all (NameString, feature bits) that denote `target` from scope `frm` under the ACPI rules.
        named_arg: the name is used inside an argument of a named object (Name value, region offset ...)"""
        frm, target = tuple(frm), tuple(target)
        parent = target[:-1]
        out = []
        na = FEATURE_PATH_IN_NAMED_ARG if named_arg else 0
        if (decl and parent == frm) or (not decl and frm[:len(parent)] == parent):
            # inside the args of a named object that the parser re-attaches elsewhere only absolute names keep their meaning
            ao = FEATURE_PATH_IN_NAMED_ARG if named_arg == 'abs' else 0
            out.append((nm([target[-1]]), ao))
            out.append((nm([target[-1]], multi=True), FEATURE_NONCANON_MULTI | ao))
        out.append((nm(list(target), root=True), self.path_features((), target, 0, frm, decl)))
        if len(target) < 3:
            out.append((nm(list(target), root=True, multi=True), self.path_features((), target, 0, frm, decl) | FEATURE_NONCANON_MULTI))
        # '^' forms: from any ancestor a of frm that is an ancestor-or-self of parent
        for ups in range(1, len(frm) + 1):
            a = frm[:len(frm) - ups]
            if target[:len(a)] == a and len(target) > len(a):
                out.append((nm(list(target[len(a):]), carets=ups), self.path_features(a, target, ups, frm, decl) | na))
        # relative multi-segment form
        if target[:len(frm)] == frm and len(target) >= len(frm) + 2:
            out.append((nm(list(target[len(frm):])), self.path_features(frm, target, 0, frm, decl) | na))
        return out

    def name_to(self, frm, target, decl=False, allow_features=False, named_arg=False):
        """a NameString for `target` seen from `frm`; None if every form needs a known-defective construct"""
        rng = self.rng
        forms = self.name_forms(frm, target, decl, named_arg)
        clean = [f for f in forms if f[1] == 0]
        usable = [f for f in forms if f[1] != 0 and (f[1] & ~self.allowed) == 0]
        if allow_features and usable and (not clean or rng.random() < 0.5):
            n, feat = rng.choice(usable)
            self.features |= feat
            return n
        if not clean:
            return None
        # prefer the plain single segment
        if clean[0][0][4] == [target[-1]] and clean[0][0][1] == 0 and clean[0][0][2] == 0 and rng.random() < 0.7:
            return clean[0][0]
        return rng.choice(clean)[0]

    def reachable(self, frm, target, decl=False, named_arg=False):
        return any(f[1] == 0 for f in self.name_forms(frm, target, decl, named_arg))

    def nameable(self, frm, target, decl=False):
        return any(f[1] == 0 or (f[1] & ~self.allowed) == 0 for f in self.name_forms(frm, target, decl))

    def ref_to(self, ctx, target):
        return self.name_to(ctx['scope'], target, allow_features=self.allow, named_arg=ctx.get('named_arg', False))

    def path_features(self, start, target, carets, frm, decl):
        """feature bits of resolving the path (of the object itself, or of its parent for a declaration)
        by stepping down from scope `start`, which was reached with `carets` '^' from frm"""
        feat = 0
        start, target = tuple(start), tuple(target)
        last = len(target) - 1 if decl else len(target)      # the parser looks up target[:last]
        if carets > 0 and self.devlike(frm):
            feat |= FEATURE_CARET_IN_DEVICE
        # a step FROM an intermediate object: it has to be a ScopeBlock (root / default scope)
        for i in range(len(start) + 1, last):
            if self.devlike(target[:i]):
                feat |= FEATURE_PATH_THROUGH_DEVICE
        return feat

    # ---- plan ----
    def plan(self):
        rng = self.rng
        n_scopes = rng.choice([1, 2, 3]) if self.small else rng.choice([1, 2, 3, 4, 6, 9, 12])
        for _ in range(n_scopes):
            cands = [p for p in self.scopes if len(p) < 6 and self.scopes[p]['kind'] != T_METHOD]
            weights = [3 if p == (seg('_SB_'),) else (2 if len(p) > 1 else 1) for p in cands]
            parent = rng.choices(cands, weights)[0]
            kind = rng.choice([T_DEVICE] * 5 + [T_THERMAL, T_PROCESSOR, T_POWERRES])
            name = self.fresh({T_DEVICE: 'D', T_THERMAL: 'T', T_PROCESSOR: 'C', T_POWERRES: 'P'}[kind])
            table = max(self.scopes[parent]['table'], rng.choice([1] * 4 + [self.ntables]))
            p = parent + (name,)
            self.scopes[p] = dict(path=p, kind=kind, devlike=True, table=table, leaves=[], children=[])
            self.scopes[parent]['children'].append(p)
        # leaves
        for p in list(self.scopes):
            sc = self.scopes[p]
            n = rng.choice([0, 1, 2, 3]) if (self.small or sc['kind'] is None) else rng.choice([0, 1, 2, 3, 4, 6])
            if p == ():
                n = rng.choice([1, 2, 3, 4])
            for _ in range(n):
                table = max(sc['table'], 1, rng.choice([1] * 3 + [self.ntables]))
                kind = rng.choice(['name'] * 4 + ['method'] * 4 + ['region'] * 2 + ['mutex', 'event'])
                if kind == 'name':
                    q = p + (self.fresh('N'),)
                    self.values[q] = table
                elif kind == 'method':
                    q = p + (self.fresh('M'),)
                    self.methods[q] = (rng.choice([0, 0, 1, 1, 2, 3, 7, rng.randrange(8)]), table)
                    self.scopes[q] = dict(path=q, kind=T_METHOD, devlike=True, table=table, leaves=[], children=[])
                elif kind == 'region':
                    q = p + (self.fresh('R'),)
                    self.regions[q] = table
                elif kind == 'mutex':
                    q = p + (self.fresh('X'),)
                    self.mutexes[q] = table
                else:
                    q = p + (self.fresh('E'),)
                    self.events[q] = table
                sc['leaves'].append((kind, q, table))

    # ---- terms ----
    def visible(self, d, ctx):
        return [p for p, t in d.items() if (t[1] if isinstance(t, tuple) else t) <= ctx['table']
                and self.reachable(ctx['scope'], p, named_arg=ctx.get('named_arg', False))]

    def const(self):
        rng = self.rng
        op = rng.choice([OP_ZERO, OP_ONE, OP_ONES, OP_BYTE, OP_BYTE, OP_WORD, OP_DWORD, OP_QWORD])
        n = CONST_BYTES[op]
        v = 0 if n == 0 else rng.choice([0, 1, (1 << (8 * n)) - 1, rng.randrange(1 << (8 * n))])
        return (T_CONST, op, v)

    def string(self):
        rng = self.rng
        return (T_STR, [rng.randrange(1, 0x80) for _ in range(rng.choice([0, 1, 4, 9, 30]))])

    def buffer(self, ctx, depth):
        rng = self.rng
        data = rand_bytes(rng, rng.choice([0, 1, 3, 8, 20]))
        if not data and (ctx.get('deferred') or depth > 0):
            if self.allowed == FEATURE_EMPTY_BUFFER_DEFERRED and rng.random() < 0.5:
                self.features |= FEATURE_EMPTY_BUFFER_DEFERRED
            else:
                data = rand_bytes(rng, rng.choice([1, 2, 5]))
        size = self.expr(dict(ctx, deferred=True), depth + 1, deferred=True) if rng.random() < 0.4 else (T_CONST, OP_BYTE, len(data) + rng.choice([0, 0, 2]))
        body = len(enc(size)) + len(data)
        return (T_BUFFER, self.k_for(0, body), size, data)

    def package(self, ctx, depth):
        rng = self.rng
        elems = []
        for _ in range(rng.choice([0, 1, 2, 4])):
            r = rng.random()
            if r < 0.5:
                elems.append(self.const())
            elif r < 0.7:
                elems.append(self.string())
            elif r < 0.8 and depth < 3:
                elems.append(self.package(ctx, depth + 1))
            elif r < 0.9 and depth < 3:
                elems.append(self.buffer(ctx, depth + 1))
            else:
                v = self.visible(self.values, ctx)
                elems.append((T_REF, self.ref_to(ctx, rng.choice(v))) if v else self.const())
        n = len(elems) + rng.choice([0, 0, 1])
        body = 1 + len(encs(elems))
        return (T_PACKAGE, self.k_for(0, body), n & 0xff, elems)

    def data_object(self, ctx):
        r = self.rng.random()
        if r < 0.45:
            return self.const()
        if r < 0.6:
            return self.string()
        if r < 0.8:
            return self.buffer(ctx, 0)
        return self.package(ctx, 0)

    def supername(self, ctx):
        rng = self.rng
        r = rng.random()
        if r < 0.45 or not ctx.get('method'):
            v = self.visible(self.values, ctx)
            if v and (r < 0.3 or not ctx.get('method')):
                return (T_REF, self.ref_to(ctx, rng.choice(v)))
            if not ctx.get('method'):
                return (T_OP, 0x130, [])                 # Debug
        if r < 0.8:
            return (T_OP, 0x60 + rng.randrange(8), [])   # LocalX
        if ctx.get('argc', 0) > 0:
            return (T_OP, 0x68 + rng.randrange(ctx['argc']), [])
        return (T_OP, 0x60 + rng.randrange(8), [])

    def call(self, ctx, depth, deferred=False):
        rng = self.rng
        ms = self.visible(self.methods, ctx)
        if not ms:
            return None
        m = rng.choice(ms)
        argc = self.methods[m][0]
        args = [self.expr(ctx, depth + 1, deferred) for _ in range(argc)]
        return (T_CALL, self.ref_to(ctx, m), args)

    def expr(self, ctx, depth, deferred=False):
        """a TermArg"""
        rng = self.rng
        r = rng.random()
        if depth >= 4 or r < 0.3:
            r2 = rng.random()
            if r2 < 0.5:
                return self.const()
            if r2 < 0.75 and ctx.get('method'):
                return (T_OP, 0x60 + rng.randrange(8), []) if rng.random() < 0.6 or ctx.get('argc', 0) == 0 else (T_OP, 0x68 + rng.randrange(ctx['argc']), [])
            v = self.visible(self.values, ctx)
            if v:
                return (T_REF, self.ref_to(ctx, rng.choice(v)))
            return self.const()
        if r < 0.5:
            c = self.call(ctx, depth, deferred)
            if c is not None:
                return c
        if r < 0.55:
            return self.string()
        if r < 0.6 and depth < 2:
            return self.buffer(ctx, depth + 1)
        op, sig = rng.choice(OPS_EXPR)
        return (T_OP, op, self.args(ctx, sig, depth, deferred))

    def args(self, ctx, sig, depth, deferred=False):
        rng = self.rng
        out = []
        for c in sig:
            if c == 't':
                out.append(self.expr(ctx, depth + 1, deferred))
            elif c == 'T':
                out.append((T_NULL,) if rng.random() < 0.4 else self.supername(ctx))
            elif c == 'S':
                out.append(self.supername(ctx))
            elif c == 'n':
                out.append((T_REF, nm([self.fresh('F')])))
            elif c == 'b':
                out.append((T_DATA, 1, rng.randrange(256)))
            elif c == 'w':
                out.append((T_DATA, 2, rng.randrange(1 << 16)))
            elif c == 'd':
                out.append((T_DATA, 4, rng.randrange(1 << 32)))
        return out

    def stmt(self, ctx, depth, allow_pkg=True):
        rng = self.rng
        r = rng.random()
        if ctx.get('deferred') and not allow_pkg:
            # inside a While body a nested If / While is only generated as the last statement of its block
            if self.allowed == FEATURE_DEFERRED_NESTED_PKG and r < 0.2:
                self.features |= FEATURE_DEFERRED_NESTED_PKG
            else:
                r = 0.5 + r / 2
        if ctx.get('method') and depth < 3:
            if r < 0.12:
                pred = self.expr(ctx, 2, ctx.get('deferred', False))
                body = self.stmts(ctx, depth + 1, rng.choice([1, 1, 2, 3]))
                if all(is_noop(x) for x in body):
                    body.append((T_OP, 0x75, [(T_OP, 0x60, [])]))          # Increment(Local0)
                if self.allowed == FEATURE_EMPTY_IF and rng.random() < 0.3:
                    body = [(T_OP, 0xa3, [])] * rng.choice([0, 0, 1])
                    self.features |= FEATURE_EMPTY_IF
                out = [(T_IF, self.k_for(0, len(enc(pred)) + len(encs(body))), pred, body)]
                if rng.random() < 0.4 and (not ctx.get('deferred') or (self.allowed == FEATURE_DEFERRED_NESTED_PKG and self._flag(FEATURE_DEFERRED_NESTED_PKG))):
                    eb = self.stmts(ctx, depth + 1, rng.choice([0, 1, 2]))
                    out.append((T_ELSE, self.k_for(0, len(encs(eb))), eb))
                return out
            if r < 0.2:
                c2 = dict(ctx, deferred=True)
                pred = self.expr(c2, 2, True)
                body = self.stmts(c2, depth + 1, rng.choice([0, 1, 2, 3]))
                if rng.random() < 0.3 and not (body and body[-1][0] in (T_IF, T_ELSE, T_WHILE)):
                    body.append((T_OP, rng.choice([0xa5, 0x9f]), []))     # Break / Continue
                return [(T_WHILE, self.k_for(0, len(enc(pred)) + len(encs(body))), pred, body)]
            if r < 0.28:
                return [(T_OP, 0xa4, [self.expr(ctx, 1, ctx.get('deferred', False))])]   # Return
        if ctx.get('method') and not ctx.get('deferred') and 0.28 <= r < 0.31:
            # a logical operator with constant operands as a statement of its own (fragment F9 of Props/C11_frag.v):
            # LNot / LAnd / LOr / LEqual / LGreater / LLess - all operands are TermArgs, the first pass leaves them to
            # the object list and resolveMethodCalls attaches them
            op, n = rng.choice([(0x92, 1), (0x90, 2), (0x91, 2), (0x93, 2), (0x94, 2), (0x95, 2)])
            return [(T_OP, op, [self.string() if rng.random() < 0.15 else self.const() for _ in range(n)])]
        if r < 0.4:
            c = self.call(ctx, 1, ctx.get('deferred', False))
            if c is not None:
                return [c]
        op, sig = rng.choice(OPS_STMT)
        if 'n' in sig and not ctx.get('method'):
            op, sig = 0x70, 'tS'
        return [(T_OP, op, self.args(ctx, sig, 1, ctx.get('deferred', False)))]

    def stmts(self, ctx, depth, n):
        out = []
        for i in range(n):
            out += self.stmt(ctx, depth, allow_pkg=(i == n - 1))
        return out

    def _flag(self, f):
        self.features |= f
        return True

    # ---- declarations ----
    def felems(self, ctx, scope):
        rng = self.rng
        out = []
        for _ in range(rng.choice([1, 2, 3, 5])):
            r = rng.random()
            if r < 0.55:
                name = self.fresh('F')
                w = rng.choice([1, 4, 8, 16, 32, 63, 64, 200, 4095, 70000])
                out.append((F_NAMED, name, self.k_for_val(w), w))
            elif r < 0.7:
                w = rng.choice([1, 8, 24, 100, 5000])
                out.append((F_RESERVED, self.k_for_val(w), w))
            elif r < 0.8:
                out.append((F_ACCESS, rng.choice([0, 1, 2, 3, 4, 5]), rng.choice([0, 2, 6, 0xa])))
            elif r < 0.88:
                out.append((F_EXTACCESS, 5, rng.choice([0xb, 0xe, 0xf]), rng.randrange(256)))
            elif r < 0.94:
                v = self.visible(self.values, ctx)
                if v:
                    cn = self.name_to(scope, rng.choice(v))
                    if cn is not None:
                        out.append((F_CONNNAME, cn))
            else:
                data = rand_bytes(rng, rng.choice([0, 1, 5, 30]))
                szop = rng.choice([OP_BYTE, OP_BYTE, OP_WORD, OP_DWORD])
                body = 1 + CONST_BYTES[szop] + len(data)
                out.append((F_CONNBUF, self.k_for(0, body), szop, data))
        return out

    def k_for_val(self, v):
        ks = [k for k in (1, 2, 3, 4) if v <= pkglen_max(k)]
        return ks[0] if self.rng.random() < 0.7 else self.rng.choice(ks)

    def leaf(self, kind, q, table, frm, allow_features):
        """AST items declaring leaf q (planned in scope q[:-1]) when emitted inside scope frm"""
        rng = self.rng
        name = self.name_to(frm, q, decl=True, allow_features=allow_features)
        plain = name[1] == 0 and name[2] == 0 and name[3] == 0 and len(name[4]) == 1
        ctx = dict(scope=tuple(frm), table=table, named_arg=True if plain else 'abs')     # for the args of Name / OperationRegion / BankField
        if kind == 'name':
            v = self.data_object(ctx)
            if rng.random() < 0.2:
                e = self.expr(ctx, 2)
                compound = e[0] in (T_OP, T_CALL) and len(e[2]) > 0
                relocated = not (name[1] == 0 and name[2] == 0 and len(name[4]) == 1 and name[3] == 0)   # the parser re-attaches such objects
                if not (compound and relocated):
                    v = e
                elif self.allowed == FEATURE_REGION_EXPR:
                    v = e
                    self.features |= FEATURE_REGION_EXPR
            return [(T_NAME, name, v)]
        if kind == 'method':
            argc = self.methods[q][0]
            flags = argc | (rng.randrange(32) << 3)
            mctx = dict(scope=tuple(q), table=table, method=True, argc=argc)
            body = self.stmts(mctx, 0, rng.choice([0, 1, 2, 3, 5]) if not self.small else rng.choice([0, 1, 2]))
            if rng.random() < 0.25:
                # a named object local to the method
                ln = tuple(q) + (self.fresh('L'),)
                body.insert(rng.randrange(len(body) + 1), (T_NAME, nm([ln[-1]]), self.const()))
            blen = len(enc_name(name)) + 1 + len(encs(body))
            return [(T_METHOD, self.k_for(0, blen), name, flags, body)]
        if kind == 'region':
            off = self.const()
            if rng.random() < 0.25:
                v = self.visible(self.values, ctx)
                if v:
                    off = (T_REF, self.ref_to(ctx, rng.choice(v)))
            if self.allowed == FEATURE_REGION_EXPR and rng.random() < 0.3:
                off = self.expr(ctx, 3)
                if off[0] in (T_OP, T_CALL, T_BUFFER) and len(off[2] if off[0] != T_BUFFER else [1]) > 0:
                    self.features |= FEATURE_REGION_EXPR
            out = [(T_OPREGION, name, rng.choice([0, 1, 2, 3, 9]), off, self.const())]
            scope = q[:-1]
            for _ in range(rng.choice([0, 1, 1, 2])):
                rname = self.name_to(frm, q)
                if rname is None:
                    break
                fl = rng.randrange(128)
                r = rng.random()
                if r < 0.7:
                    el = self.felems(ctx, frm)
                    blen = len(enc_name(rname)) + 1 + sum(len(enc_felem(e)) for e in el)
                    out.append((T_FIELD, self.k_for(0, blen), rname, fl, el))
                elif r < 0.85:
                    # IndexField over two field units declared just before
                    i0, d0 = self.fresh('F'), self.fresh('F')
                    el0 = [(F_NAMED, i0, 1, 8), (F_NAMED, d0, 1, 8)]
                    out.append((T_FIELD, 1, rname, 1, el0))
                    el = self.felems(ctx, frm)
                    blen = 4 + 4 + 1 + sum(len(enc_felem(e)) for e in el)
                    out.append((T_INDEXFIELD, self.k_for(0, blen), nm([i0]), nm([d0]), fl, el))
                else:
                    b0 = self.fresh('F')
                    out.append((T_FIELD, 1, rname, 1, [(F_NAMED, b0, 1, 8)]))
                    el = self.felems(ctx, frm)
                    bv = self.expr(dict(ctx, deferred=True), 3, True) if rng.random() < 0.5 else self.const()
                    blen = len(enc_name(rname)) + 4 + len(enc(bv)) + 1 + sum(len(enc_felem(e)) for e in el)
                    out.append((T_BANKFIELD, self.k_for(0, blen), rname, nm([b0]), bv, fl, el))
            return out
        if kind == 'mutex':
            return [(T_MUTEX, name, rng.randrange(16))]
        return [(T_EVENT, name)]

    def scope_decl(self, p, frm, body, allow_features):
        sc = self.scopes[p]
        rng = self.rng
        name = self.name_to(frm, p, decl=True, allow_features=allow_features)
        nb = len(enc_name(name))
        if sc['kind'] == T_DEVICE:
            return (T_DEVICE, self.k_for(0, nb + len(encs(body))), name, body)
        if sc['kind'] == T_THERMAL:
            return (T_THERMAL, self.k_for(0, nb + len(encs(body))), name, body)
        if sc['kind'] == T_PROCESSOR:
            return (T_PROCESSOR, self.k_for(0, nb + 6 + len(encs(body))), name, rng.randrange(256), rng.randrange(1 << 32), rng.choice([0, 6]), body)
        return (T_POWERRES, self.k_for(0, nb + 3 + len(encs(body))), name, rng.randrange(8), rng.randrange(1 << 16), body)

    # ---- emission ----
    def emit(self):
        rng = self.rng
        allow = self.allow
        tables = [[] for _ in range(self.ntables)]
        # blocks[table][scope path] = list of AST items emitted in (one of the blocks of) that scope
        pending = {t: {} for t in range(1, self.ntables + 1)}

        def block(table, scope):
            return pending[table].setdefault(tuple(scope), [])

        # leaves: into the block of their scope (same table as the leaf), or declared from elsewhere by path
        for p, sc in self.scopes.items():
            if sc['kind'] == T_METHOD:
                continue
            for (kind, q, table) in sc['leaves']:
                frm = p
                if rng.random() < 0.12:
                    # declare from another scope with a path
                    others = [o for o in self.scopes if self.scopes[o]['kind'] != T_METHOD and self.scopes[o]['table'] <= table
                              and self.nameable(o, q, True)]
                    frm = rng.choice(others) if others else p
                items = self.leaf(kind, q, table, frm, allow)
                block(table, frm).extend(items)
        # statements at scope level
        for p, sc in self.scopes.items():
            if sc['kind'] == T_METHOD:
                continue
            for _ in range(rng.choice([0, 0, 0, 1, 2])):
                table = max(sc['table'], 1, rng.choice([1, self.ntables]))
                ctx = dict(scope=p, table=table)
                block(table, p).extend(self.stmt(ctx, 9))
        # scope objects: inline in the parent's block, or from another block by path; their own blocks nest or reopen via Scope()
        order = sorted([p for p in self.scopes if self.scopes[p]['kind'] not in (None, T_METHOD)], key=lambda p: -len(p))
        for p in order:
            sc = self.scopes[p]
            table = sc['table']
            own = pending[table].pop(p, [])
            rng.shuffle(own)
            inline = own
            if own and rng.random() < 0.3:
                cut = rng.randrange(len(own) + 1)
                inline, rest = own[:cut], own[cut:]
                pending[table][p] = rest          # reopened later with Scope()
            parent = p[:-1]
            frm = parent
            if rng.random() < 0.1:
                # only from the root / a default scope or from an ancestor: a block of an unrelated device could itself
                # (transitively) be emitted inside a block of p, and Scope(p) { ... Device(p) ... } is circular
                others = [o for o in self.scopes if (self.scopes[o]['kind'] is None or (o == p[:len(o)] and len(o) < len(p) - 1))
                          and self.scopes[o]['table'] <= table and self.nameable(o, p, True)]
                if others:
                    frm = rng.choice(others)
            block(table, frm).append(self.scope_decl(p, frm, inline, allow))
        # what is left: blocks of root / default scopes / reopened scopes / scopes of an earlier table
        for table in range(1, self.ntables + 1):
            top = tables[table - 1]
            blocks = pending[table]
            # reopened blocks, deepest first: Scope(name) { items } hosted at the top level or in the block of the parent scope
            maxd = max([len(p) for p in blocks] + [0])
            for d in range(maxd, 0, -1):
                for p in [q for q in list(blocks) if len(q) == d]:
                    items = blocks[p]
                    if not items:
                        continue
                    rng.shuffle(items)
                    host = p[:-1]
                    if self.nameable((), p) and rng.random() < 0.5:
                        host = ()
                    name = self.name_to(host, p, allow_features=allow)
                    if name is None:
                        host = p[:-1]
                        name = self.name_to(host, p)
                    sd = (T_SCOPE, self.k_for(0, len(enc_name(name)) + len(encs(items))), name, items)
                    if host == ():
                        top.append(sd)
                    else:
                        blocks.setdefault(host, []).append(sd)
            rootitems = blocks.get((), [])
            rng.shuffle(rootitems)
            if rootitems and rng.random() < 0.15:
                # Scope(\) { ... }
                name = nm([], root=True)
                rootitems = [(T_SCOPE, self.k_for(0, 2 + len(encs(rootitems))), name, rootitems)]
            top.extend(rootitems)
            rng.shuffle(top)
        return tables


def gen_program(rng, small=False):
    """-> dict(tables=[ast list], bytes=[payload], expected=entries, features=bits)"""
    for _ in range(50):
        g = Gen(rng, small)
        g.plan()
        try:
            tables = g.emit()
            tb = [encs(t) for t in tables]
        except (AssertionError, IndexError):
            continue
        if any(len(b) > 60000 for b in tb):
            continue
        return dict(tables=tables, bytes=tb, expected=ns(tables), features=g.features)
    raise RuntimeError('generator failed')
