"""Case generators shared by checks/C11.py and checks/C12.py (AML parser).

  lexer cases   : 0 fn pkgEnd offset arg bytes...
  parse cases   : 1 ntables (len bytes...)*          payloads (the harness / model add the 36-byte header)
"""
import os, sys
sys.path.insert(0, os.path.join(os.path.dirname(os.path.abspath(__file__)), '..', 'lib'))
import vlib

HDR = 36
NAMECH = b'ABCDEFGHIJKLMNOPQRSTUVWXYZ_'
NAMECH2 = b'ABCDEFGHIJKLMNOPQRSTUVWXYZ_0123456789'


def join_tables(tabs):
    out = [1, len(tabs)]
    for t in tabs:
        out.append(len(t))
        out += list(t)
    return out


def split_tables(nums):
    n = nums[1] if len(nums) > 1 else 0
    i = 2
    tabs = []
    for _ in range(n):
        if i >= len(nums):
            break
        ln = nums[i]
        tabs.append(list(nums[i + 1:i + 1 + ln]))
        i += 1 + ln
    return tabs


# ---------------------------------------------------------------------------------------------
# tokens
# ---------------------------------------------------------------------------------------------

def enc_pkglen_width(v, k):
    """PkgLength value v in k bytes (k=1: v<64; k>=2: 4 low bits in the lead byte)."""
    if k == 1:
        assert v < 64
        return [v]
    out = [((k - 1) << 6) | (v & 0xf)]
    v >>= 4
    for _ in range(k - 1):
        out.append(v & 0xff)
        v >>= 8
    assert v == 0
    return out


def pkglen_max(k):
    return 63 if k == 1 else (1 << (4 + 8 * (k - 1))) - 1


def rand_nameseg(rng):
    return [rng.choice(NAMECH)] + [rng.choice(NAMECH2) for _ in range(3)]


def rand_bytes(rng, n):
    return [rng.randrange(256) for _ in range(n)]


INTERESTING = [0x00, 0x01, 0x08, 0x0a, 0x0b, 0x0c, 0x0d, 0x0e, 0x10, 0x11, 0x12, 0x13, 0x14, 0x2e, 0x2f, 0x5b, 0x5c, 0x5e,
               0x41, 0x5f, 0x60, 0x68, 0x70, 0x72, 0x80, 0x81, 0x82, 0x83, 0x86, 0x87, 0xa0, 0xa1, 0xa2, 0xa3, 0xa4, 0xff, 0x3f, 0x40, 0x7f, 0xc0]


def lex_case(rng):
    fn = rng.choice([0, 0, 0, 1, 1, 2, 2, 3, 3, 3, 3, 4, 4, 5, 6, 7, 8, 9])
    pre = rand_bytes(rng, rng.choice([0, 0, 1, 3, 36]))
    arg = 0
    tok = []
    if fn == 0:
        k = rng.randrange(1, 5)
        v = rng.choice([0, 1, 15, 16, 63, 64, 255, 256, 4095, 4096, (1 << 20) - 1, 1 << 20, (1 << 28) - 1, rng.randrange(1 << 28)])
        v = min(v, pkglen_max(k))
        tok = enc_pkglen_width(v, k)
        if rng.random() < 0.3:
            tok[0] |= rng.randrange(4) << 4        # the reserved bits 4-5 of a multi-byte lead
            tok[0] &= 0xff
        note = 'lex-pkglen'
    elif fn == 1:
        arg = rng.choice([0, 1, 2, 4, 8, 8, 3, 15, rng.randrange(16)])
        tok = rand_bytes(rng, rng.choice([arg, arg, max(arg - 1, 0), arg + 1, 0]))
        note = 'lex-num'
    elif fn == 2:
        n = rng.choice([0, 1, 5, 40, 200])
        tok = [rng.randrange(1, 0x80) for _ in range(n)]
        r = rng.random()
        if r < 0.6:
            tok.append(0)
        elif r < 0.8:
            tok.append(rng.choice([0x80, 0xff, 0x81]))
        note = 'lex-string'
    elif fn == 3:
        tok = [rng.choice([0x5c, 0x5e]) for _ in range(rng.choice([0, 0, 1, 1, 2, 5]))]
        form = rng.randrange(6)
        if form == 0:
            tok += [0]
        elif form == 1:
            tok += rand_nameseg(rng)
        elif form == 2:
            tok += [0x2e] + rand_nameseg(rng) + rand_nameseg(rng)
        elif form == 3:
            sc = rng.choice([0, 1, 2, 3, 7, 63, 64, 65, 128, 255])
            tok += [0x2f, sc]
            for _ in range(min(sc, rng.choice([sc, sc, 3]))):
                tok += rand_nameseg(rng)
        elif form == 4:
            tok += [rng.choice([0x30, 0x39, 0x40, 0x5b, 0x60, 0x61, 0x7a, 0xff, 0x2d])] + rand_bytes(rng, 3)
        else:
            tok += rand_bytes(rng, rng.randrange(0, 6))
        note = 'lex-name'
    elif fn in (4, 5):
        r = rng.random()
        if r < 0.5:
            tok = [rng.randrange(256)]
        elif r < 0.9:
            tok = [0x5b, rng.randrange(256)]
        else:
            tok = [0x5b]
        note = 'lex-opcode'
    else:
        tok = rand_bytes(rng, rng.randrange(0, 3))
        note = 'lex-reader'
    post = rand_bytes(rng, rng.choice([0, 0, 1, 4, 9]))
    data = pre + tok + post
    off = len(pre)
    end = len(pre) + len(tok)
    r = rng.random()
    if r < 0.45:
        pkg_end = len(data)
    elif r < 0.6:
        pkg_end = end
    elif r < 0.85:
        pkg_end = rng.randrange(off, end + 1) if end > off else off      # inside the token
    elif r < 0.92:
        pkg_end = rng.randrange(0, len(data) + 1)
    elif r < 0.96:
        pkg_end = len(data) + rng.choice([1, 2, 1000])                   # SetPkgEnd must refuse
    else:
        pkg_end = max(off - 1, 0)
    if rng.random() < 0.07:
        off = rng.choice([0, len(data), len(data) + 1, rng.randrange(0, len(data) + 2), 0xffffffff])
    return ([0, fn, pkg_end, off, arg] + data, note)


# ---------------------------------------------------------------------------------------------
# parse cases
# ---------------------------------------------------------------------------------------------

_REAL = None


def real_tables():
    """payloads of the AML tables shipped in the repository's test data"""
    global _REAL
    if _REAL is None:
        d = os.path.join(vlib.REPO, 'kernel/device/acpi/table/tabletest')
        _REAL = {}
        for fn in ('DSDT.aml', 'SSDT.aml', 'parser-testsuite-DSDT.aml'):
            try:
                b = open(os.path.join(d, fn), 'rb').read()
                _REAL[fn] = list(b[HDR:])
            except OSError:
                pass
    return _REAL


def _pkg(op, body, k=None):
    """op bytes + PkgLength (covering itself and body) + body, in the smallest (or given) width"""
    for w in ([k] if k else [1, 2, 3, 4]):
        if len(body) + w <= pkglen_max(w):
            return list(op) + enc_pkglen_width(len(body) + w, w) + list(body)
    raise ValueError('package too long')


def _nm(s):
    return [ord(c) for c in s]


# hand-written seeds: small well-formed fragments covering every argument kind
SEEDS = [
    # Name(AAAA, 0x12)
    [0x08] + _nm('AAAA') + [0x0a, 0x12],
    # Scope(\_SB_) { Device(DEV0) { Name(_ADR, One) } }
    _pkg([0x10], [0x5c] + _nm('_SB_') + _pkg([0x5b, 0x82], _nm('DEV0') + [0x08] + _nm('_ADR') + [0x01])),
    # Method(MTH0, 2) { Return(Add(Arg0, Arg1)) }   Name(XXXX, MTH0(1,2))
    _pkg([0x14], _nm('MTH0') + [0x02, 0xa4, 0x72, 0x68, 0x69, 0x00]) + [0x08] + _nm('XXXX') + _nm('MTH0') + [0x01, 0x0a, 0x02],
    # forward call: Name(YYYY, MTH1(One))  Method(MTH1, 1) { Return(Arg0) }
    [0x08] + _nm('YYYY') + _nm('MTH1') + [0x01] + _pkg([0x14], _nm('MTH1') + [0x01, 0xa4, 0x68]),
    # OpRegion + Field
    [0x5b, 0x80] + _nm('REG0') + [0x01, 0x0b, 0x00, 0x30, 0x0a, 0x04] +
    _pkg([0x5b, 0x81], _nm('REG0') + [0x01] + _nm('FLD0') + [0x08, 0x00, 0x08] + _nm('FLD1') + [0x08]),
    # Field with Connection(buffer), AccessField, ExtAccessField
    _pkg([0x5b, 0x81], _nm('AAAA') + [0x00, 0x02] + _pkg([0x11], [0x0a, 0x03, 0x01, 0x02, 0x03]) + _nm('FLD0') + [0x08, 0x01, 0x05, 0x06] +
         _nm('FLD1') + [0x08, 0x03, 0x05, 0x0b, 0x04] + _nm('FLD2') + [0x10]),
    # Name(BUF0, Buffer(4){1,2,3})  Method(MTH1){ While(One){ Store(1, Local0) Break }  If(Zero){} Else{Noop} }
    [0x08] + _nm('BUF0') + _pkg([0x11], [0x0a, 0x04, 0x01, 0x02, 0x03]) +
    _pkg([0x14], _nm('MTH1') + [0x00] + _pkg([0xa2], [0x01, 0x70, 0x01, 0x60, 0xa5]) + _pkg([0xa0], [0x00]) + _pkg([0xa1], [0xa3])),
    # relocation: Scope(_SB_){ Device(DEV0){} Scope(DEV0){ Device(^DEV1){ Name(AAAA, Zero) } } }
    _pkg([0x10], _nm('_SB_') + _pkg([0x5b, 0x82], _nm('DEV0')) +
         _pkg([0x10], _nm('DEV0') + _pkg([0x5b, 0x82], [0x5e] + _nm('DEV1') + [0x08] + _nm('AAAA') + [0x00]))),
    # Mutex, Event, Processor, PowerRes, ThermalZone, Package, String
    [0x5b, 0x01] + _nm('MUT0') + [0x01, 0x5b, 0x02] + _nm('EVT0') +
    _pkg([0x5b, 0x83], _nm('CPU0') + [0x01, 0x20, 0x01, 0x00, 0x00, 0x06]) +
    _pkg([0x5b, 0x84], _nm('PWR0') + [0x00, 0x00, 0x00]) + _pkg([0x5b, 0x85], _nm('TZ0_')) +
    [0x08] + _nm('PKG0') + _pkg([0x12], [0x02, 0x0a, 0x07, 0x0d, 0x61, 0x62, 0x00]),
    # multi-segment names: Device(\_SB_.DEV2){}  Name(\_SB_.DEV2.NNNN, 0x1234)  Scope(\_SB_.DEV2) {Name(MMMM, One)}
    _pkg([0x5b, 0x82], [0x5c, 0x2e] + _nm('_SB_') + _nm('DEV2')) + [0x08, 0x5c, 0x2f, 0x03] + _nm('_SB_') + _nm('DEV2') + _nm('NNNN') + [0x0b, 0x34, 0x12],
    # the self-relocation crasher and the byte-list crasher (fixed in /repo)
    [0x5b, 0x82, 0x0a, 0x2e, 0x41, 0x41, 0x41, 0x41, 0x41, 0x41, 0x41, 0x41],
    [0x5b, 0x81, 0x0f, 0x41, 0x41, 0x41, 0x41, 0x00, 0x02, 0x11, 0x07, 0x0c, 0xff, 0xff, 0xff, 0x7f, 0x00],
]

VALID_OPS = [0x00, 0x01, 0x06, 0x08, 0x0a, 0x0b, 0x0c, 0x0d, 0x0e, 0x10, 0x11, 0x12, 0x13, 0x14, 0x15] + list(range(0x60, 0x6f)) + \
    list(range(0x70, 0x9a)) + list(range(0x9c, 0xa6)) + [0xcc, 0xff]
EXT_OPS = [0x01, 0x02, 0x12, 0x13, 0x1f] + list(range(0x20, 0x2b)) + [0x30, 0x31, 0x32, 0x33] + list(range(0x80, 0x89))


def soup(rng, n):
    """syntactically plausible token soup: opcodes, package lengths, names, constants in random order"""
    out = []
    while len(out) < n:
        r = rng.random()
        if r < 0.35:
            out.append(rng.choice(VALID_OPS))
        elif r < 0.5:
            out += [0x5b, rng.choice(EXT_OPS)]
        elif r < 0.65:
            k = rng.choice([1, 1, 1, 2, 3, 4])
            v = rng.choice([0, 1, 2, 5, 8, 12, 20, 40, 63, rng.randrange(0, 400)])
            out += enc_pkglen_width(min(v, pkglen_max(k)), k)
        elif r < 0.85:
            form = rng.randrange(5)
            out += [rng.choice([0x5c, 0x5e]) for _ in range(rng.choice([0, 0, 0, 1, 2]))]
            seg = lambda: rng.choice([[0x41, 0x41, 0x41, 0x41], [0x42, 0x42, 0x42, 0x42], [0x5f, 0x53, 0x42, 0x5f], rand_nameseg(rng)])
            if form == 0:
                out += seg()
            elif form == 1:
                out += [0x2e] + seg() + seg()
            elif form == 2:
                k = rng.choice([1, 2, 3])
                out += [0x2f, k]
                for _ in range(k):
                    out += seg()
            elif form == 3:
                out += [0]
            else:
                out += seg()
        elif r < 0.93:
            out += rng.choice([[0x0a, rng.randrange(256)], [0x0b] + rand_bytes(rng, 2), [0x0c] + rand_bytes(rng, 4), [0x0d, 0x61, 0x62, 0]])
        else:
            out.append(rng.randrange(256))
    return out[:n] if rng.random() < 0.5 else out


def pkglen_positions(t):
    """heuristic: positions right after an opcode that takes a PkgLength"""
    pos = []
    for i, b in enumerate(t[:-1]):
        if b in (0x10, 0x11, 0x12, 0x13, 0x14, 0xa0, 0xa1, 0xa2):
            pos.append(i + 1)
        if b == 0x5b and t[i + 1] in (0x81, 0x82, 0x83, 0x84, 0x85, 0x86, 0x87) and i + 2 < len(t):
            pos.append(i + 2)
    return pos


def mutate(rng, t, pool):
    """one mutation of payload t (list of bytes): truncation, bit flip, substitution, length corruption, splice, insert, delete"""
    t = list(t)
    if not t:
        return rand_bytes(rng, rng.randrange(1, 8)), 'rand'
    r = rng.random()
    if r < 0.15:
        return t[:rng.randrange(0, len(t))], 'trunc'
    if r < 0.3:
        for _ in range(rng.choice([1, 1, 2, 4])):
            i = rng.randrange(len(t))
            t[i] ^= 1 << rng.randrange(8)
        return t, 'bitflip'
    if r < 0.5:
        for _ in range(rng.choice([1, 1, 2, 3])):
            i = rng.randrange(len(t))
            t[i] = rng.choice(INTERESTING) if rng.random() < 0.7 else rng.randrange(256)
        return t, 'subst'
    if r < 0.72:
        pos = pkglen_positions(t)
        if pos:
            i = rng.choice(pos)
            lead = t[i]
            k = (lead >> 6) + 1
            mode = rng.randrange(6)
            if mode == 0:
                t[i] = rng.choice([0, 1, 2, 3, 0x3f])                       # tiny / zero / maximal one-byte length
            elif mode == 1:
                t[i] = (lead + rng.choice([1, 2, -1, -2, 4, 16])) & 0xff     # off by a little
            elif mode == 2:
                t[i:i + 1] = enc_pkglen_width(rng.choice([0x0fffffff, 0x0ffffff0, len(t), len(t) + 1, len(t) * 2]), 4)
            elif mode == 3:
                t[i] = (lead & 0x3f) | (rng.randrange(4) << 6)               # change the width, keep the bits
            elif mode == 4 and k > 1 and i + 1 < len(t):
                t[i + 1] = rng.randrange(256)
            else:
                k2 = rng.choice([2, 3, 4])
                t[i:i + k] = enc_pkglen_width(min(rng.randrange(0, 2 * len(t) + 2), pkglen_max(k2)), k2)
            return t, 'lencorrupt'
        return t[:rng.randrange(0, len(t))], 'trunc'
    if r < 0.86:
        o = rng.choice(pool)
        if o:
            a = rng.randrange(len(t) + 1)
            b0 = rng.randrange(len(o))
            b1 = min(len(o), b0 + rng.choice([1, 4, 12, 40, 200]))
            if rng.random() < 0.5:
                t[a:a] = o[b0:b1]
            else:
                t[a:a + (b1 - b0)] = o[b0:b1]
        return t, 'splice'
    if r < 0.93:
        a = rng.randrange(len(t))
        del t[a:a + rng.choice([1, 1, 2, 4, 9])]
        return t, 'delete'
    a = rng.randrange(len(t) + 1)
    t[a:a] = [rng.choice(INTERESTING) for _ in range(rng.choice([1, 1, 2, 4]))]
    return t, 'insert'


def generated_tables(rng, n):
    """well-formed tables from the grammar generator (see gen_program); list of lists of payloads"""
    out = []
    for _ in range(n):
        try:
            prog = gen_program(rng, small=True)
            out.append([t['bytes'] for t in prog['tables']])
        except NotImplementedError:
            break
    return out


def gen_program(rng, small=False):
    raise NotImplementedError


def parse_cases(rng, n, tier):
    real = real_tables()
    out = []
    pool = [list(s) for s in SEEDS] + [v for v in real.values()]
    gens = generated_tables(rng, {'quick': 60, 'thorough': 600, 'search': 120}[tier])
    for g in gens:
        pool += g
    # unmutated seeds and real tables first (agreement on well-formed input)
    for s in SEEDS:
        out.append((join_tables([s]), 'seed'))
    if 'DSDT.aml' in real and 'SSDT.aml' in real:
        out.append((join_tables([real['DSDT.aml'], real['SSDT.aml']]), 'real'))
    if 'parser-testsuite-DSDT.aml' in real:
        out.append((join_tables([real['parser-testsuite-DSDT.aml']]), 'real'))
    for g in gens[:20]:
        out.append((join_tables(g), 'generated'))
    big_budget = {'quick': 40, 'thorough': 1500, 'search': 100}[tier]      # mutations of the 8.6 KB DSDT
    big_agree = {'quick': 1, 'thorough': 40, 'search': 0}[tier]           # ... of which with model agreement (13 s each)
    while len(out) < n:
        r = rng.random()
        if r < 0.12:
            out.append((join_tables([rand_bytes(rng, rng.choice([0, 1, 2, 3, 5, 8, 13, 30, 80]))]), 'random'))
        elif r < 0.3:
            out.append((join_tables([soup(rng, rng.choice([3, 6, 10, 16, 30, 60, 150]))]), 'soup'))
        elif r < 0.55:
            t, how = mutate(rng, rng.choice(SEEDS), pool)
            if rng.random() < 0.3:
                t, how2 = mutate(rng, t, pool)
                how += '+' + how2
            out.append((join_tables([t]), 'seed-' + how.split('+')[0]))
        elif r < 0.8 and gens:
            g = [list(t) for t in rng.choice(gens)]
            i = rng.randrange(len(g))
            g[i], how = mutate(rng, g[i], pool)
            if rng.random() < 0.25:
                g[i], _ = mutate(rng, g[i], pool)
            out.append((join_tables(g), 'gen-' + how))
        else:
            which = rng.random()
            if which < 0.55 and 'parser-testsuite-DSDT.aml' in real:
                t, how = mutate(rng, real['parser-testsuite-DSDT.aml'], pool)
                out.append((join_tables([t]), 'real-' + how))
            elif which < 0.8 and 'SSDT.aml' in real:
                t, how = mutate(rng, real['SSDT.aml'], pool)
                out.append((join_tables([t]), 'real-' + how))
            elif big_budget > 0 and 'DSDT.aml' in real:
                big_budget -= 1
                t, how = mutate(rng, real['DSDT.aml'], pool)
                tabs = [t]
                if rng.random() < 0.5 and 'SSDT.aml' in real:
                    tabs.append(real['SSDT.aml'])
                c = join_tables(tabs)
                if big_agree > 0:
                    big_agree -= 1
                    out.append((c, 'real-' + how))
                else:
                    c[0] = 2          # monitors only: the list-based pool of the model is quadratic on 5000 objects
                    out.append((c, 'bigmon-' + how))
            else:
                t, how = mutate(rng, rng.choice(SEEDS), pool)
                out.append((join_tables([t]), 'seed-' + how))
    return out
